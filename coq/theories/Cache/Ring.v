(* Model of ring.go (ringStripe.Push, the sync.Pool of stripes) together with its consumer in policy.go
   (defaultPolicy.Push: non-blocking send on itemsCh with the keepGets / dropGets counters; processItems: the
   policy goroutine takes a batch and applies it with tinyLFU.Push).  Definitions only.

   This is the part of the Get path that Cache/Machine.v abstracts to the environment step [LGets kept n]
   ("a batch of n recorded Gets is kept / dropped"): here it is written out.

   A stripe is its [data] slice.  sync.Pool is modelled as the list of all stripes that exist, in creation order; which
   stripe a Push gets (pool.Get) is a choice of the runtime, given as an index (an index past the end = pool.New); the
   garbage collector dropping an unheld stripe is the environment step [RGc].  A stripe whose data is [] is
   indistinguishable from a fresh one, so a dropped stripe is represented as an emptied one.  *)
From Coq Require Import List ZArith NArith Bool.
Import ListNotations.
From Ristretto Require Import Sketch.TinyLFU.
Open Scope N_scope.

Record ring := {
  r_capa : Z;                 (* ringStripe.capa = Config.BufferItems *)
  r_chcap : nat;              (* cap(defaultPolicy.itemsCh) *)
  r_stripes : list (list N);  (* data of every stripe, in creation order *)
  r_ch : list (list N);       (* itemsCh, oldest first *)
  r_recv : list (list N);     (* batches processItems has received and applied (tinyLFU.Push), oldest first *)
  r_kept : N;                 (* Metrics keepGets *)
  r_dropped : N;              (* Metrics dropGets *)
  r_closed : bool;            (* defaultPolicy.isClosed *)
  (* ghosts, for the statements only *)
  r_pushed : list N;          (* every item ever pushed, in order *)
  r_dropl : list N;           (* items of batches refused because itemsCh was full (counted in dropGets) *)
  r_lostl : list N            (* items of batches refused by a closed policy, or sitting in a stripe the GC dropped *)
}.

Definition ring_new (capa : Z) (chcap : nat) : ring :=
  {| r_capa := capa; r_chcap := chcap; r_stripes := []; r_ch := []; r_recv := []; r_kept := 0; r_dropped := 0;
     r_closed := false; r_pushed := []; r_dropl := []; r_lostl := [] |}.

Fixpoint set_nth {A} (l : list A) (i : nat) (x : A) : list A :=
  match l, i with
  | [], _ => [x]                               (* past the end: pool.New, the stripe is appended *)
  | _ :: t, O => x :: t
  | h :: t, S j => h :: set_nth t j x
  end.

Inductive verdict := VKept | VDropped | VClosed.

(* defaultPolicy.Push(keys), keys non-empty (a drained stripe holds at least the item just appended) *)
Definition policy_verdict (r : ring) : verdict :=
  if r_closed r then VClosed
  else if Nat.ltb (length (r_ch r)) (r_chcap r) then VKept else VDropped.

Inductive rop :=
| RPush (i : nat) (item : N)     (* ringBuffer.Push(item) and pool.Get returned stripe i *)
| RRecv                          (* processItems: items := <-itemsCh; Lock; tinyLFU.Push(items); Unlock *)
| RGc (i : nat)                  (* the GC drops the unheld stripe i from the pool *)
| RClose.                        (* defaultPolicy.Close: isClosed := true (itemsCh closed, goroutine stopped) *)

Inductive rout :=
| OStored (len : nat)                        (* appended, stripe not full *)
| ODrain (keys : list N) (v : verdict)       (* stripe full: cons.Push(keys) *)
| OBatch (keys : list N)                     (* processItems applied this batch *)
| ONone.

Definition with_stripes (r : ring) (ss : list (list N)) : ring :=
  {| r_capa := r_capa r; r_chcap := r_chcap r; r_stripes := ss; r_ch := r_ch r; r_recv := r_recv r;
     r_kept := r_kept r; r_dropped := r_dropped r; r_closed := r_closed r; r_pushed := r_pushed r;
     r_dropl := r_dropl r; r_lostl := r_lostl r |}.

Definition ring_step (r : ring) (o : rop) : ring * rout :=
  match o with
  | RPush i item =>
      let data := nth i (r_stripes r) [] ++ [item] in
      let pushed := r_pushed r ++ [item] in
      if (r_capa r <=? Z.of_nat (length data))%Z then
        let v := policy_verdict r in
        let ss := set_nth (r_stripes r) i [] in
        let n := N.of_nat (length data) in
        (match v with
         | VKept =>
             {| r_capa := r_capa r; r_chcap := r_chcap r; r_stripes := ss; r_ch := r_ch r ++ [data];
                r_recv := r_recv r; r_kept := r_kept r + n; r_dropped := r_dropped r; r_closed := r_closed r;
                r_pushed := pushed; r_dropl := r_dropl r; r_lostl := r_lostl r |}
         | VDropped =>
             {| r_capa := r_capa r; r_chcap := r_chcap r; r_stripes := ss; r_ch := r_ch r;
                r_recv := r_recv r; r_kept := r_kept r; r_dropped := r_dropped r + n; r_closed := r_closed r;
                r_pushed := pushed; r_dropl := r_dropl r ++ data; r_lostl := r_lostl r |}
         | VClosed =>
             {| r_capa := r_capa r; r_chcap := r_chcap r; r_stripes := ss; r_ch := r_ch r;
                r_recv := r_recv r; r_kept := r_kept r; r_dropped := r_dropped r; r_closed := r_closed r;
                r_pushed := pushed; r_dropl := r_dropl r; r_lostl := r_lostl r ++ data |}
         end, ODrain data v)
      else
        ({| r_capa := r_capa r; r_chcap := r_chcap r; r_stripes := set_nth (r_stripes r) i data; r_ch := r_ch r;
            r_recv := r_recv r; r_kept := r_kept r; r_dropped := r_dropped r; r_closed := r_closed r;
            r_pushed := pushed; r_dropl := r_dropl r; r_lostl := r_lostl r |}, OStored (length data))
  | RRecv =>
      match r_closed r, r_ch r with
      | false, b :: rest =>
          ({| r_capa := r_capa r; r_chcap := r_chcap r; r_stripes := r_stripes r; r_ch := rest;
              r_recv := r_recv r ++ [b]; r_kept := r_kept r; r_dropped := r_dropped r; r_closed := r_closed r;
              r_pushed := r_pushed r; r_dropl := r_dropl r; r_lostl := r_lostl r |}, OBatch b)
      | _, _ => (r, ONone)
      end
  | RGc i =>
      ({| r_capa := r_capa r; r_chcap := r_chcap r;
          r_stripes := if Nat.ltb i (length (r_stripes r)) then set_nth (r_stripes r) i [] else r_stripes r;
          r_ch := r_ch r; r_recv := r_recv r; r_kept := r_kept r; r_dropped := r_dropped r; r_closed := r_closed r;
          r_pushed := r_pushed r; r_dropl := r_dropl r; r_lostl := r_lostl r ++ nth i (r_stripes r) [] |}, ONone)
  | RClose =>
      ({| r_capa := r_capa r; r_chcap := r_chcap r; r_stripes := r_stripes r; r_ch := r_ch r; r_recv := r_recv r;
          r_kept := r_kept r; r_dropped := r_dropped r; r_closed := true; r_pushed := r_pushed r;
          r_dropl := r_dropl r; r_lostl := r_lostl r |}, ONone)
  end.

Definition ring_run (r : ring) (ops : list rop) : ring := fold_left (fun r o => fst (ring_step r o)) ops r.

(* what the policy goroutine has done to the admission sketch: one tinyLFU.Push per received batch *)
Definition ring_tl (t0 : tinylfu) (r : ring) : tinylfu := fold_left tl_push (r_recv r) t0.

(* number of Gets recorded and not yet decided (what Machine.v calls s_gets) *)
Definition undecided (r : ring) : nat := length (concat (r_stripes r)).
