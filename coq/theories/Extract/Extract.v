(* The only extraction file of the project.  ExtrOcamlBasic only: bool/option/unit/list/prod/sumbool
   map to OCaml's; nat, positive, N, Z stay the extracted Coq datatypes. *)
Require Extraction.
Require Import ExtrOcamlBasic.
From Ristretto Require Import Base.Word Sketch.Sketch Bloom.Bloom Sketch.TinyLFU.
From Ristretto Require Import Simd.X86 Simd.SearchGo Gen.SearchAsm.

Extraction "model.ml"
  N.add N.mul N.of_nat N.to_nat Z.of_N Z.to_N Z.add Z.mul Z.opp N.eqb N.ltb Z.ltb
  u8 u64 nthN updN
  nib_get nib_inc byte_reset row_get row_inc row_reset row_clear next2power
  sketch_new sk_increment sk_estimate sk_reset sk_clear
  get_size bloom_new bl_add bl_has bl_add_if_not_has bl_clear bl_marshal bl_unmarshal
  first_ge naive search_portable search_amd64 run_kernel search_prog search_guarded
  tl_new tl_estimate tl_increment tl_push tl_clear tl_reset.
