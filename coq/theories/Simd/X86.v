(* Semantics of the 15-instruction x86-64 subset that z/simd/search_amd64.s uses (Plan 9 operand order),
   as an executable small-step interpreter.  Registers hold N values < 2^64; 32-bit operations
   zero-extend; CMPQ a, b followed by JAE jumps iff a >= b unsigned (JB iff a < b).
   Memory is a list of 64-bit words starting at an arbitrary 8-aligned base address; a read outside
   it, or unaligned, is a Fault; every read index is recorded.  Definitions only. *)
From Ristretto Require Import Base.Word.
Open Scope N_scope.

Inductive reg := AX | BX | CX | DX | BP.
Inductive arg := A_base | A_len | A_k.
Inductive instr :=
| ILoad (a : arg) (r : reg)                  (* MOVQ name+off(FP), r *)
| IMovQ (s d : reg) | IMovL (s d : reg) | IXorL (s d : reg)
| ICmpMem (disp : N) (b i : reg) (r : reg)   (* CMPQ disp(b)(i*8), r *)
| ICmpQ (a b : reg)                          (* CMPQ a, b *)
| IJae (t : nat) | IJb (t : nat) | IJmp (t : nat)
| IAddQi (imm : N) (r : reg) | IAddLi (imm : N) (r : reg) | IAddL (s d : reg)
| IShrLi (imm : N) (r : reg)
| IStoreRet (r : reg)                        (* MOVL r, ret+32(FP) *)
| IRet.

Record regs := { rAX : N; rBX : N; rCX : N; rDX : N; rBP : N }.
Definition getr (g : regs) (r : reg) : N :=
  match r with AX => rAX g | BX => rBX g | CX => rCX g | DX => rDX g | BP => rBP g end.
Definition setr (g : regs) (r : reg) (v : N) : regs :=
  match r with
  | AX => {| rAX := v; rBX := rBX g; rCX := rCX g; rDX := rDX g; rBP := rBP g |}
  | BX => {| rAX := rAX g; rBX := v; rCX := rCX g; rDX := rDX g; rBP := rBP g |}
  | CX => {| rAX := rAX g; rBX := rBX g; rCX := v; rDX := rDX g; rBP := rBP g |}
  | DX => {| rAX := rAX g; rBX := rBX g; rCX := rCX g; rDX := v; rBP := rBP g |}
  | BP => {| rAX := rAX g; rBX := rBX g; rCX := rCX g; rDX := rDX g; rBP := v |}
  end.

Record input := { in_base : N; in_mem : list N; in_len : N; in_k : N }.
Record st := { pc : nat; rg : regs; fl : N * N; retw : N; reads : list N }.
Inductive outcome := Running (s : st) | Done (ret : N) (rd : list N) | Fault.

Definition next (s : st) (g : regs) : outcome :=
  Running {| pc := S (pc s); rg := g; fl := fl s; retw := retw s; reads := reads s |}.
Definition goto (s : st) (t : nat) : outcome :=
  Running {| pc := t; rg := rg s; fl := fl s; retw := retw s; reads := reads s |}.

Definition step (prog : list instr) (inp : input) (s : st) : outcome :=
  match nth_error prog (pc s) with
  | None => Fault
  | Some i =>
    let g := rg s in
    match i with
    | ILoad a r =>
        next s (setr g r (match a with A_base => in_base inp | A_len => in_len inp | A_k => in_k inp end))
    | IMovQ a d => next s (setr g d (getr g a))
    | IMovL a d => next s (setr g d (u32 (getr g a)))
    | IXorL a d => next s (setr g d (u32 (N.lxor (getr g a) (getr g d))))
    | ICmpMem disp b i r =>
        let addr := u64 (disp + getr g b + 8 * getr g i) in
        if addr <? in_base inp then Fault
        else if negb ((addr - in_base inp) mod 8 =? 0) then Fault
        else let w := (addr - in_base inp) / 8 in
             match nth_error (in_mem inp) (N.to_nat w) with
             | None => Fault
             | Some v => Running {| pc := S (pc s); rg := g; fl := (v, getr g r);
                                    retw := retw s; reads := w :: reads s |}
             end
    | ICmpQ a b => Running {| pc := S (pc s); rg := g; fl := (getr g a, getr g b);
                              retw := retw s; reads := reads s |}
    | IJae t => if snd (fl s) <=? fst (fl s) then goto s t else next s g
    | IJb t => if fst (fl s) <? snd (fl s) then goto s t else next s g
    | IJmp t => goto s t
    | IAddQi imm r => next s (setr g r (u64 (getr g r + imm)))
    | IAddLi imm r => next s (setr g r (u32 (getr g r + imm)))
    | IAddL a d => next s (setr g d (u32 (getr g a + getr g d)))
    | IShrLi imm r => next s (setr g r (N.shiftr (u32 (getr g r)) imm))
    | IStoreRet r => Running {| pc := S (pc s); rg := g; fl := fl s; retw := u32 (getr g r); reads := reads s |}
    | IRet => Done (retw s) (reads s)
    end
  end.

Fixpoint run (prog : list instr) (inp : input) (fuel : nat) (s : st) : outcome :=
  match fuel with
  | O => Running s
  | S f => match step prog inp s with
           | Running s' => run prog inp f s'
           | o => o
           end
  end.

Definition init_st : st :=
  {| pc := 0; rg := {| rAX := 0; rBX := 0; rCX := 0; rDX := 0; rBP := 0 |}; fl := (0, 0); retw := 0; reads := [] |}.

(* int16 result slot: the low 16 bits of the stored word, read as a signed 16-bit value *)
Definition as_int16 (w : N) : Z :=
  let x := w mod two16 in if x <? 32768 then Z.of_N x else (Z.of_N x - 65536)%Z.

(* run the kernel on xs followed in memory by [beyond]; None = fault or out of fuel *)
Definition run_kernel (prog : list instr) (base : N) (xs beyond : list N) (k : N) : option (Z * list N) :=
  let inp := {| in_base := base; in_mem := xs ++ beyond; in_len := lenN xs; in_k := k |} in
  match run prog inp (32 + 3 * length xs) init_st with
  | Done r rd => Some (as_int16 r, rd)
  | _ => None
  end.
