(* Proofs for C20: the Go search functions and ANY program that passes the block-level check below
   compute first_ge; the generated kernel is instantiated in Properties/C20.v. *)
From Ristretto Require Import Base.Word Base.ListX Base.WordProofs Simd.X86 Simd.SearchGo.
From Coq Require Import ZifyN ZifyNat ZifyBool.
Ltac Zify.zify_post_hook ::= Z.div_mod_to_equations.
Open Scope N_scope.

(* ---------- scan: examine cnt keys at i, i+2, ... ---------- *)
Fixpoint scan (cnt : nat) (xs : list N) (k i : N) : N :=
  match cnt with
  | O => i / 2
  | S c => if k <=? nthN xs i 0 then i / 2 else scan c xs k (i + 2)
  end.

Lemma list_ind2 {A} (P : list A -> Prop) :
  P [] -> (forall x, P [x]) -> (forall x y t, P t -> P (x :: y :: t)) -> forall l, P l.
Proof.
  intros H0 H1 H2. fix IH 1. intros [|x [|y t]]; [exact H0|exact (H1 x)|exact (H2 x y t (IH t))].
Qed.

Definition half_up (n : nat) : nat := Nat.div2 (S n).

Lemma half_up_SS n : half_up (S (S n)) = S (half_up n).
Proof. reflexivity. Qed.

Lemma nthN_app_r {A} (pre t : list A) j d : nthN (pre ++ t) (lenN pre + j) d = nthN t j d.
Proof.
  unfold nthN, lenN. rewrite app_nth2 by lia. f_equal. lia.
Qed.

Lemma scan_first_ge t : forall pre k, (lenN pre) mod 2 = 0 ->
  scan (half_up (length t)) (pre ++ t) k (lenN pre) = lenN pre / 2 + first_ge t k.
Proof.
  induction t as [|x|x y t IH] using list_ind2; intros pre k Hev.
  - simpl. lia.
  - cbn [length]. change (half_up 1) with 1%nat. cbn [scan first_ge].
    replace (lenN pre) with (lenN pre + 0) at 1 by lia. rewrite nthN_app_r.
    unfold nthN; cbn [N.to_nat nth].
    destruct (k <=? x); lia.
  - cbn [length]. rewrite half_up_SS. cbn [scan first_ge].
    replace (lenN pre) with (lenN pre + 0) at 1 by lia. rewrite nthN_app_r.
    unfold nthN at 1; cbn [N.to_nat nth].
    destruct (k <=? x); [lia|].
    specialize (IH (pre ++ [x; y]) k).
    assert (Hl : lenN (pre ++ [x; y]) = lenN pre + 2) by (unfold lenN; rewrite app_length; simpl; lia).
    rewrite Hl in IH. rewrite <- app_assoc in IH. cbn [app] in IH.
    rewrite IH by lia. lia.
Qed.

Lemma scan_is_first_ge xs k : scan (half_up (length xs)) xs k 0 = first_ge xs k.
Proof. apply (scan_first_ge xs [] k). reflexivity. Qed.

Lemma half_up_spec n : N.of_nat (half_up n) = (N.of_nat n + 1) / 2.
Proof. unfold half_up. rewrite Nat.div2_div. lia. Qed.

(* ---------- Naive ---------- *)
Lemma naive_loop_scan cnt : forall fuel xs k i,
  (cnt < fuel)%nat -> lenN xs <= i + 2 * N.of_nat cnt ->
  (cnt = O \/ i + 2 * (N.of_nat cnt - 1) < lenN xs) ->
  naive_loop fuel xs k i = scan cnt xs k i.
Proof.
  induction cnt as [|c IH]; intros fuel xs k i Hf Hcov Hin.
  - destruct fuel as [|f]; [lia|]. simpl. destruct (N.ltb_spec i (lenN xs)); [lia|reflexivity].
  - destruct fuel as [|f]; [lia|]. cbn [naive_loop scan].
    destruct (N.ltb_spec i (lenN xs)) as [Hlt|Hge]; [|destruct Hin as [Hin|Hin]; lia].
    destruct (k <=? nthN xs i 0); [reflexivity|].
    apply IH; lia.
Qed.

Theorem naive_first_ge xs k : naive xs k = first_ge xs k.
Proof.
  unfold naive. rewrite <- scan_is_first_ge.
  pose proof (half_up_spec (length xs)) as Hh.
  apply naive_loop_scan; unfold lenN; lia.
Qed.

(* ---------- Clever / portable Search ---------- *)
Lemma scan4 c xs k i :
  scan (4 + c) xs k i =
  if k <=? nthN xs i 0 then i / 2
  else if k <=? nthN xs (i + 2) 0 then (i + 2) / 2
  else if k <=? nthN xs (i + 4) 0 then (i + 4) / 2
  else if k <=? nthN xs (i + 6) 0 then (i + 6) / 2
  else scan c xs k (i + 8).
Proof.
  cbn [Nat.add scan].
  replace (i + 2 + 2) with (i + 4) by lia. replace (i + 4 + 2) with (i + 6) by lia.
  replace (i + 6 + 2) with (i + 8) by lia. reflexivity.
Qed.

Lemma clever_loop_scan blocks : forall fuel xs k i,
  (blocks < fuel)%nat -> lenN xs = i + 8 * N.of_nat blocks ->
  clever_loop fuel xs k i = Some (scan (4 * blocks) xs k i).
Proof.
  induction blocks as [|b IH]; intros fuel xs k i Hf Hlen.
  - destruct fuel as [|f]; [lia|]. simpl. destruct (N.ltb_spec i (lenN xs)); [lia|].
    f_equal. lia.
  - destruct fuel as [|f]; [lia|].
    replace (4 * S b)%nat with (4 + 4 * b)%nat by lia. rewrite scan4.
    cbn [clever_loop].
    destruct (N.ltb_spec i (lenN xs)); [|lia].
    destruct (N.ltb_spec (i + 6) (lenN xs)); [|lia].
    destruct (k <=? nthN xs i 0); [reflexivity|].
    destruct (k <=? nthN xs (i + 2) 0); [reflexivity|].
    destruct (k <=? nthN xs (i + 4) 0); [reflexivity|].
    destruct (k <=? nthN xs (i + 6) 0); [reflexivity|].
    apply IH; lia.
Qed.

Lemma half_up_8 (b : nat) : half_up (8 * b) = (4 * b)%nat.
Proof.
  apply Nat2N.inj. rewrite half_up_spec. lia.
Qed.

Theorem search_portable_first_ge xs k : search_portable xs k = Some (first_ge xs k).
Proof.
  unfold search_portable.
  destruct ((lenN xs <? 8) || negb (lenN xs mod 8 =? 0)) eqn:E.
  - now rewrite naive_first_ge.
  - apply orb_false_elim in E. destruct E as [E1 E2].
    apply N.ltb_ge in E1. apply negb_false_iff, N.eqb_eq in E2.
    set (b := (length xs / 8)%nat).
    assert (Hb : length xs = (8 * b)%nat).
    { subst b. unfold lenN in *. pose proof (Nat.div_mod (length xs) 8 ltac:(lia)).
      assert (length xs mod 8 = 0)%nat by lia. lia. }
    rewrite (clever_loop_scan b); try (unfold lenN; lia).
    rewrite <- scan_is_first_ge. rewrite Hb, half_up_8. reflexivity.
Qed.

(* ---------- the kernel: block-level symbolic execution ---------- *)
Lemma run_S prog inp f s :
  run prog inp (S f) s = match step prog inp s with Running s' => run prog inp f s' | o => o end.
Proof. reflexivity. Qed.

Lemma run_add prog inp n f s :
  run prog inp (n + f) s = match run prog inp n s with Running s' => run prog inp f s' | o => o end.
Proof.
  revert s; induction n as [|n IH]; intros s; [reflexivity|].
  cbn [Nat.add]. rewrite !run_S. destruct (step prog inp s); auto.
Qed.

(* A memory compare whose address is word w of the memory. *)
Lemma step_cmpmem prog inp s disp b i r w v :
  nth_error prog (pc s) = Some (ICmpMem disp b i r) ->
  disp + getr (rg s) b + 8 * getr (rg s) i = in_base inp + 8 * w ->
  in_base inp + 8 * w < two64 ->
  nth_error (in_mem inp) (N.to_nat w) = Some v ->
  step prog inp s = Running {| pc := S (pc s); rg := rg s; fl := (v, getr (rg s) r);
                               retw := retw s; reads := w :: reads s |}.
Proof.
  intros Hi Haddr Hlt Hm. unfold step. rewrite Hi. cbv zeta.
  rewrite Haddr. rewrite (u64_small _ Hlt).
  destruct (N.ltb_spec (in_base inp + 8 * w) (in_base inp)); [lia|].
  replace (in_base inp + 8 * w - in_base inp) with (w * 8) by lia.
  rewrite N.mod_mul by lia. rewrite N.div_mul by lia. cbn [N.eqb negb]. rewrite Hm. reflexivity.
Qed.
