(* Correctness of the GENERATED kernel (Gen/SearchAsm.v, translated from search_amd64.s on every run):
   on slices whose length is a non-zero multiple of 8 (and < 2^31) it returns first_ge and reads only
   words of the slice.  The proof executes the instruction list symbolically, block by block. *)
From Ristretto Require Import Base.Word Base.ListX Base.WordProofs Simd.X86 Simd.SearchGo Simd.SearchProofs
  Gen.SearchAsm.
From Coq Require Import ZifyN ZifyNat ZifyBool.
Ltac Zify.zify_post_hook ::= Z.div_mod_to_equations.
Open Scope N_scope.

Section Kernel.
Variables (base : N) (xs beyond : list N) (k : N).
Let len := lenN xs.
Hypothesis Hbase : base + 8 * len <= two64.
Hypothesis Hlen31 : len < 2147483648.
Let inp := {| in_base := base; in_mem := xs ++ beyond; in_len := len; in_k := k |}.

Definition kst (p : nat) (bx bp : N) (f : N * N) (rw : N) (rd : list N) : st :=
  {| pc := p; rg := {| rAX := base; rBX := bx; rCX := len; rDX := k; rBP := bp |};
     fl := f; retw := rw; reads := rd |}.

Ltac refold :=
  match goal with
  | |- context [ {| pc := ?p; rg := {| rAX := _; rBX := ?bx; rCX := _; rDX := _; rBP := ?bp |};
                    fl := ?f; retw := ?rw; reads := ?rd |} ] =>
      change {| pc := p; rg := {| rAX := base; rBX := bx; rCX := len; rDX := k; rBP := bp |};
                fl := f; retw := rw; reads := rd |} with (kst p bx bp f rw rd)
  end.
Ltac ksimp :=
  cbn [kst pc nth_error search_prog rg fl retw reads getr setr next goto rAX rBX rCX rDX rBP fst snd
       in_base in_len in_k inp]; try refold.
Ltac kstep := rewrite run_S; unfold step at 1; ksimp.

Lemma u32_small x : x < two32 -> u32 x = x.
Proof. intros. unfold u32. apply N.mod_small; auto. Qed.

Lemma prologue : run search_prog inp 5 init_st = Running (kst 5 len 0 (0, 0) 0 []).
Proof. reflexivity. Qed.

(* from label Found (BP = index found) *)
Lemma found_tail bx p f rw rd : p < 2147483648 ->
  run search_prog inp 7 (kst 22 bx p f rw rd) = Done (p / 2) rd.
Proof.
  intros Hp. unfold two32 in *.
  assert (H32 : u32 p = p) by (apply u32_small; unfold two32; lia).
  do 7 kstep. rewrite !H32.
  assert (Hs : N.shiftr p 31 = 0).
  { rewrite N.shiftr_div_pow2. apply N.div_small. change (2 ^ 31) with 2147483648. lia. }
  rewrite Hs. rewrite N.add_0_r, !H32.
  rewrite N.shiftr_div_pow2. change (2 ^ 1) with 2.
  rewrite u32_small by (unfold two32; lia). reflexivity.
Qed.

(* from label NotFound (BX = n) *)
Lemma notfound_tail bx bp f rw rd : bx < 2147483648 ->
  run search_prog inp 6 (kst 23 bx bp f rw rd) = Done (bx / 2) rd.
Proof.
  intros Hp.
  assert (H32 : u32 bx = bx) by (apply u32_small; unfold two32; lia).
  do 6 kstep. rewrite !H32.
  assert (Hs : N.shiftr bx 31 = 0).
  { rewrite N.shiftr_div_pow2. apply N.div_small. change (2 ^ 31) with 2147483648. lia. }
  rewrite Hs. rewrite N.add_0_r, !H32.
  rewrite N.shiftr_div_pow2. change (2 ^ 1) with 2.
  rewrite u32_small by (unfold two32; lia). reflexivity.
Qed.

Lemma run_done_mono n : forall s m r rd,
  run search_prog inp n s = Done r rd -> (n <= m)%nat -> run search_prog inp m s = Done r rd.
Proof.
  induction n as [|n IH]; intros s m r rd H Hle; [discriminate|].
  destruct m as [|m]; [lia|]. rewrite run_S in *.
  destruct (step search_prog inp s); auto. apply IH; auto. lia.
Qed.

Lemma found_tail_ge bx p f rw rd fuel : p < 2147483648 -> (7 <= fuel)%nat ->
  run search_prog inp fuel (kst 22 bx p f rw rd) = Done (p / 2) rd.
Proof. intros. eapply run_done_mono; [apply found_tail; auto|auto]. Qed.

Lemma notfound_tail_ge bx bp f rw rd fuel : bx < 2147483648 -> (6 <= fuel)%nat ->
  run search_prog inp fuel (kst 23 bx bp f rw rd) = Done (bx / 2) rd.
Proof. intros. eapply run_done_mono; [apply notfound_tail; auto|auto]. Qed.

Lemma mem_word w : w < len -> nth_error (in_mem inp) (N.to_nat w) = Some (nthN xs w 0).
Proof.
  intros Hw. cbn [in_mem inp]. unfold len, lenN, nthN in *.
  rewrite nth_error_app1 by lia. apply nth_error_nth'. lia.
Qed.

(* one compare of the unrolled loop, at instruction index p, displacement disp, block start bp *)
Lemma cmp_step p disp w bx bp f rw rd fuel :
  nth_error search_prog p = Some (ICmpMem disp AX BP DX) ->
  disp + 8 * bp = 8 * w -> w < len ->
  run search_prog inp (S fuel) (kst p bx bp f rw rd) =
  run search_prog inp fuel (kst (S p) bx bp (nthN xs w 0, k) rw (w :: rd)).
Proof.
  intros Hi Ha Hw. rewrite run_S.
  erewrite (step_cmpmem search_prog inp (kst p bx bp f rw rd) disp AX BP DX w (nthN xs w 0)).
  - reflexivity.
  - exact Hi.
  - cbn [kst rg getr rAX rBP in_base inp]. lia.
  - cbn [in_base inp]. unfold two64 in *. lia.
  - now apply mem_word.
Qed.

Definition reads_ok (rd : list N) : Prop := Forall (fun w => w < len) rd.

Lemma block_step bp bx f rw rd fuel :
  bp + 8 <= len -> bx = len -> (20 <= fuel)%nat ->
  run search_prog inp fuel (kst 5 bx bp f rw rd) =
  if k <=? nthN xs bp 0 then Done (bp / 2) (bp :: rd)
  else if k <=? nthN xs (bp + 2) 0 then Done ((bp + 2) / 2) (bp + 2 :: bp :: rd)
  else if k <=? nthN xs (bp + 4) 0 then Done ((bp + 4) / 2) (bp + 4 :: bp + 2 :: bp :: rd)
  else if k <=? nthN xs (bp + 6) 0 then Done ((bp + 6) / 2) (bp + 6 :: bp + 4 :: bp + 2 :: bp :: rd)
  else if bp + 8 <? len then
    run search_prog inp (fuel - 11) (kst 5 bx (bp + 8) (bp + 8, len) rw (bp + 6 :: bp + 4 :: bp + 2 :: bp :: rd))
  else Done (len / 2) (bp + 6 :: bp + 4 :: bp + 2 :: bp :: rd).
Proof.
  intros Hbp Hbx Hfuel.
  do 20 (destruct fuel as [|fuel]; [exfalso; lia|]).
  rewrite (cmp_step 5 0 bp) by (try reflexivity; lia).
  kstep.
  destruct (N.leb_spec k (nthN xs bp 0)) as [H0|H0]. all: ksimp.
  { rewrite found_tail_ge by lia. reflexivity. }
  rewrite (cmp_step 7 16 (bp + 2)) by (try reflexivity; lia).
  kstep.
  destruct (N.leb_spec k (nthN xs (bp + 2) 0)) as [H1|H1]. all: ksimp.
  { do 2 kstep. rewrite (u32_small (bp + 2)) by (unfold two32; lia).
    rewrite found_tail_ge by lia. reflexivity. }
  rewrite (cmp_step 9 32 (bp + 4)) by (try reflexivity; lia).
  kstep.
  destruct (N.leb_spec k (nthN xs (bp + 4) 0)) as [H2|H2]. all: ksimp.
  { do 2 kstep. rewrite (u32_small (bp + 4)) by (unfold two32; lia).
    rewrite found_tail_ge by lia. reflexivity. }
  rewrite (cmp_step 11 48 (bp + 6)) by (try reflexivity; lia).
  kstep.
  destruct (N.leb_spec k (nthN xs (bp + 6) 0)) as [H3|H3]. all: ksimp.
  { do 1 kstep. rewrite (u32_small (bp + 6)) by (unfold two32; lia).
    rewrite found_tail_ge by lia. reflexivity. }
  do 3 kstep.
  rewrite (u64_small (bp + 8)) by (unfold two64 in *; lia).
  destruct (N.ltb_spec (bp + 8) len) as [Hlt|Hge]; ksimp.
  - reflexivity.
  - kstep.
    rewrite notfound_tail_ge by lia. subst bx. reflexivity.
Qed.

Lemma blocks_run : forall blocks bp bx f rw rd fuel,
  len = bp + 8 * N.of_nat (S blocks) -> bx = len -> reads_ok rd ->
  (12 * S blocks + 8 <= fuel)%nat ->
  exists rd', run search_prog inp fuel (kst 5 bx bp f rw rd) = Done (scan (4 * S blocks) xs k bp) rd' /\
              reads_ok rd'.
Proof.
  induction blocks as [|b IH]; intros bp bx f rw rd fuel Hlen Hbx Hrd Hfuel.
  - rewrite block_step by lia.
    change (4 * 1)%nat with (4 + 0)%nat. rewrite scan4. cbn [scan].
    destruct (k <=? nthN xs bp 0); [eexists; split; [reflexivity|repeat constructor; try lia; exact Hrd]|].
    destruct (k <=? nthN xs (bp + 2) 0); [eexists; split; [reflexivity|repeat constructor; try lia; exact Hrd]|].
    destruct (k <=? nthN xs (bp + 4) 0); [eexists; split; [reflexivity|repeat constructor; try lia; exact Hrd]|].
    destruct (k <=? nthN xs (bp + 6) 0); [eexists; split; [reflexivity|repeat constructor; try lia; exact Hrd]|].
    destruct (N.ltb_spec (bp + 8) len); [lia|].
    eexists; split; [f_equal; lia|repeat constructor; try lia; exact Hrd].
  - rewrite block_step by lia.
    replace (4 * S (S b))%nat with (4 + 4 * S b)%nat by lia. rewrite scan4.
    destruct (k <=? nthN xs bp 0); [eexists; split; [reflexivity|repeat constructor; try lia; exact Hrd]|].
    destruct (k <=? nthN xs (bp + 2) 0); [eexists; split; [reflexivity|repeat constructor; try lia; exact Hrd]|].
    destruct (k <=? nthN xs (bp + 4) 0); [eexists; split; [reflexivity|repeat constructor; try lia; exact Hrd]|].
    destruct (k <=? nthN xs (bp + 6) 0); [eexists; split; [reflexivity|repeat constructor; try lia; exact Hrd]|].
    destruct (N.ltb_spec (bp + 8) len); [|lia].
    apply IH; auto; try lia.
    repeat constructor; try lia; exact Hrd.
Qed.

Lemma scan_bound c : forall i, scan c xs k i <= i / 2 + N.of_nat c.
Proof.
  induction c as [|c IHc]; intros i; cbn [scan]; [lia|].
  destruct (k <=? nthN xs i 0); [lia|]. specialize (IHc (i + 2)). lia.
Qed.

Theorem kernel_correct :
  lenN xs mod 8 = 0 -> 8 <= lenN xs -> lenN xs < 65536 ->
  exists rd, run_kernel search_prog base xs beyond k = Some (Z.of_N (first_ge xs k), rd) /\
             Forall (fun w => w < lenN xs) rd.
Proof.
  intros Hmod Hge H16. fold len in Hmod, Hge, H16.
  set (b := (length xs / 8)%nat).
  assert (Hb : length xs = (8 * b)%nat).
  { subst b. unfold len, lenN in *. pose proof (Nat.div_mod (length xs) 8 ltac:(lia)).
    assert (length xs mod 8 = 0)%nat by lia. lia. }
  destruct b as [|b']; [unfold len, lenN in *; lia|].
  unfold run_kernel. fold len. fold inp.
  replace (32 + 3 * length xs)%nat with (5 + (27 + 3 * length xs))%nat by lia.
  rewrite run_add, prologue.
  destruct (blocks_run b' 0 len (0, 0) 0 [] (27 + 3 * length xs)%nat) as (rd' & Hrun & Hok).
  - unfold len, lenN. lia.
  - reflexivity.
  - constructor.
  - lia.
  - rewrite Hrun. exists rd'. split; [|exact Hok].
    rewrite <- scan_is_first_ge. rewrite Hb, half_up_8.
    pose proof (scan_bound (4 * S b') 0) as Hr.
    set (r := scan (4 * S b') xs k 0) in *.
    assert (Hr2 : r < 32768) by (unfold len, lenN in *; lia).
    f_equal. f_equal. unfold as_int16, two16.
    rewrite N.mod_small by lia.
    destruct (N.ltb_spec r 32768); [reflexivity|lia].
Qed.
End Kernel.
