(* Specification first_ge and models of the Go search functions (baseline.go Naive / Clever, search.go
   portable Search, and the exported amd64 entry point: raw kernel or length-guarded wrapper). *)
From Ristretto Require Import Base.Word Simd.X86.
Open Scope N_scope.

(* index (in pairs) of the first even position holding a value >= k, else ceil(len/2) *)
Fixpoint first_ge (xs : list N) (k : N) : N :=
  match xs with
  | [] => 0
  | x :: t => if k <=? x then 0 else
              match t with
              | [] => 1
              | _ :: t' => 1 + first_ge t' k
              end
  end.

(* Naive: for i = 0; i < len; i += 2 { if xs[i] >= k return i/2 }; return i/2 *)
Fixpoint naive_loop (fuel : nat) (xs : list N) (k i : N) : N :=
  match fuel with
  | O => i / 2
  | S f => if i <? lenN xs then
             if k <=? nthN xs i 0 then i / 2 else naive_loop f xs k (i + 2)
           else i / 2
  end.
Definition naive (xs : list N) (k : N) : N := naive_loop (S (length xs)) xs k 0.

(* the 4-way unrolled loop of Clever / portable Search; None = index out of range (Go panics) *)
Fixpoint clever_loop (fuel : nat) (xs : list N) (k i : N) : option N :=
  match fuel with
  | O => Some (lenN xs / 2)
  | S f =>
    if i <? lenN xs then
      if i + 6 <? lenN xs then
        if k <=? nthN xs i 0 then Some (i / 2)
        else if k <=? nthN xs (i + 2) 0 then Some ((i + 2) / 2)
        else if k <=? nthN xs (i + 4) 0 then Some ((i + 4) / 2)
        else if k <=? nthN xs (i + 6) 0 then Some ((i + 6) / 2)
        else clever_loop f xs k (i + 8)
      else None
    else Some (lenN xs / 2)
  end.
Definition search_portable (xs : list N) (k : N) : option N :=
  if (lenN xs <? 8) || negb (lenN xs mod 8 =? 0) then Some (naive xs k)
  else clever_loop (S (length xs)) xs k 0.

(* exported amd64 Search: either the assembly itself or a Go wrapper that falls back to Naive unless
   len >= 8 and len % 8 == 0 (which one is decided by the translator from the source). *)
Definition search_amd64 (guarded : bool) (prog : list instr) (base : N) (xs beyond : list N) (k : N)
  : option Z :=
  if guarded && ((lenN xs <? 8) || negb (lenN xs mod 8 =? 0)) then Some (Z.of_N (naive xs k))
  else match run_kernel prog base xs beyond k with
       | Some (r, _) => Some r
       | None => None
       end.
