(* Proofs about Alloc.v (C12). *)
From Ristretto Require Import Base.Word Base.ListX Base.WordProofs Alloc.Alloc.
From Coq Require Import ZifyN ZifyNat ZifyBool.
Ltac Zify.zify_post_hook ::= Z.div_mod_to_equations.
Open Scope N_scope.

(* ------------------------------------------------------------------------------------------------ *)
(* packed word                                                                                       *)
(* ------------------------------------------------------------------------------------------------ *)
Definition cur (st : astate) : N := cidx (compIdx st).
Definition off (st : astate) : N := cpos (compIdx st).

Lemma two32_val : two32 = 4294967296. Proof. reflexivity. Qed.
Lemma two64_val : two64 = 18446744073709551616. Proof. reflexivity. Qed.
Lemma max_alloc_val : max_alloc = 1073741824. Proof. reflexivity. Qed.

Lemma cpos_lt w : cpos w < two32.
Proof. unfold cpos. apply N.mod_lt. rewrite two32_val; lia. Qed.

Lemma word_split w : w = cidx w * two32 + cpos w.
Proof. unfold cidx, cpos. rewrite two32_val. lia. Qed.

Lemma cidx_pack c o : o < two32 -> cidx (c * two32 + o) = c.
Proof. unfold cidx. rewrite two32_val. intros. lia. Qed.
Lemma cpos_pack c o : o < two32 -> cpos (c * two32 + o) = o.
Proof. unfold cpos. rewrite two32_val. intros. lia. Qed.

(* a fetch-and-add that does not carry *)
Lemma faa_nocarry w sz : cidx w < 64 -> cpos w + sz < two32 ->
  add64 w sz = w + sz /\ cidx (w + sz) = cidx w /\ cpos (w + sz) = cpos w + sz.
Proof.
  intros Hc Hn. pose proof (word_split w) as Hw. pose proof (cpos_lt w) as Hp.
  assert (Hs : w + sz = cidx w * two32 + (cpos w + sz)) by lia.
  split; [|split].
  - unfold add64, u64. apply N.mod_small. rewrite two64_val, two32_val in *. lia.
  - rewrite Hs. apply cidx_pack; auto.
  - rewrite Hs. apply cpos_pack; auto.
Qed.

Lemma store_next b : b + 1 < 64 ->
  cidx (u64 ((b + 1) * two32)) = b + 1 /\ cpos (u64 ((b + 1) * two32)) = 0.
Proof.
  intros Hb. assert (E : u64 ((b + 1) * two32) = (b + 1) * two32 + 0).
  { unfold u64. rewrite N.mod_small; [lia|]. rewrite two64_val, two32_val. lia. }
  rewrite E. split; [apply cidx_pack|apply cpos_pack]; rewrite two32_val; lia.
Qed.

(* ------------------------------------------------------------------------------------------------ *)
(* threads list                                                                                      *)
(* ------------------------------------------------------------------------------------------------ *)
Lemma get_pc_live st t : get_pc st t <> TIdle -> (t < length (threads st))%nat.
Proof.
  unfold get_pc. intros H. destruct (Nat.lt_ge_cases t (length (threads st))) as [|Hge]; auto.
  rewrite nth_overflow in H by lia. congruence.
Qed.

Lemma get_set_same st t p : (t < length (threads st))%nat -> get_pc (set_pc st t p) t = p.
Proof. intros. unfold get_pc, set_pc; cbn [threads]. now apply nth_upd_same. Qed.

Lemma get_set_other st t t' p : t <> t' -> get_pc (set_pc st t p) t' = get_pc st t'.
Proof. intros. unfold get_pc, set_pc; cbn [threads]. now apply nth_upd_other. Qed.

Lemma get_set st t t' p : (t < length (threads st))%nat ->
  get_pc (set_pc st t p) t' = if Nat.eq_dec t t' then p else get_pc st t'.
Proof.
  intros. destruct (Nat.eq_dec t t'); [subst; now apply get_set_same|now apply get_set_other].
Qed.

Lemma length_set_pc st t p : length (threads (set_pc st t p)) = length (threads st).
Proof. unfold set_pc; cbn [threads]. apply length_upd. Qed.

(* ------------------------------------------------------------------------------------------------ *)
(* chunks: addBufferAt and TrimTo                                                                    *)
(* ------------------------------------------------------------------------------------------------ *)
Lemma ab_find_spec fuel cs i m :
  match ab_find fuel cs i m with
  | ABSlot j => i <= j /\ j < lenN cs /\ chunk_len cs j = 0
  | ABEnough => i < lenN cs
  | ABLimit => True
  | ABFuel => (fuel <= length cs - N.to_nat i)%nat
  end.
Proof.
  revert i; induction fuel as [|f IH]; intros i; cbn [ab_find].
  - unfold lenN. lia.
  - destruct (N.leb_spec (lenN cs) i) as [Hle|Hlt]; [exact I|].
    destruct (N.eqb_spec (chunk_len cs i) 0) as [Hz|Hnz]; [repeat split; auto; lia|].
    destruct (N.leb_spec m (chunk_len cs i)); [exact Hlt|].
    specialize (IH (i + 1)). destruct (ab_find f cs (i + 1) m); auto.
    + destruct IH as (? & ? & ?). repeat split; auto; lia.
    + unfold lenN in *. lia.
Qed.

Lemma ab_find_notlimit fuel cs i m : ab_find (S fuel) cs i m <> ABLimit -> i < lenN cs.
Proof.
  cbn [ab_find]. destruct (N.leb_spec (lenN cs) i); [congruence|auto].
Qed.

Lemma grow_loop_some fuel : forall p m, 0 < p -> m <= p * 2 ^ N.of_nat fuel ->
  exists q, grow_loop fuel p m = Some q /\ m <= q /\ (q = p \/ q < 2 * m).
Proof.
  induction fuel as [|f IH]; intros p m Hp Hm.
  - cbn [grow_loop]. change (2 ^ N.of_nat 0) with 1 in Hm.
    destruct (N.ltb_spec p m); [lia|]. exists p; repeat split; auto.
  - cbn [grow_loop]. destruct (N.ltb_spec p m) as [Hlt|Hge].
    + destruct (IH (p * 2) m) as (q & Hq & Hmq & Hq2); [lia| |].
      * replace (N.of_nat (S f)) with (N.succ (N.of_nat f)) in Hm by lia.
        rewrite N.pow_succ_r' in Hm. lia.
      * exists q; repeat split; auto. right. destruct Hq2; lia.
    + exists p; repeat split; auto.
Qed.

Lemma page_size_some prev m : m <= max_alloc ->
  exists p, page_size prev m = Some p /\ m <= p /\ 0 < p.
Proof.
  intros Hm. unfold page_size.
  set (p1 := if 2 * prev =? 0 then 512 else 2 * prev).
  assert (Hp1 : 0 < p1) by (unfold p1; destruct (N.eqb_spec (2 * prev) 0); lia).
  destruct (grow_loop_some 64 p1 m Hp1) as (q & Hq & Hmq & Hq2).
  { change (2 ^ N.of_nat 64) with 18446744073709551616. rewrite max_alloc_val in Hm.
    clearbody p1. lia. }
  rewrite Hq. destruct (N.ltb_spec max_alloc q).
  - exists max_alloc. split; [reflexivity|]. rewrite max_alloc_val in *. lia.
  - exists q. split; [reflexivity|]. lia.
Qed.

(* the loop of the code before the repair never ends when the previous slot is empty *)
Lemma grow_loop_zero fuel m : 0 < m -> grow_loop fuel 0 m = None.
Proof.
  intros Hm. induction fuel as [|f IH]; cbn [grow_loop]; destruct (N.ltb_spec 0 m); try lia; auto.
Qed.

Lemma nthN_updN_same {A} (l : list A) i x d : i < lenN l -> nthN (updN l i x) i d = x.
Proof. unfold nthN, updN, lenN. intros. apply nth_upd_same. lia. Qed.
Lemma nthN_updN_other {A} (l : list A) i j x d : i <> j -> nthN (updN l i x) j d = nthN l j d.
Proof. unfold nthN, updN. intros. apply nth_upd_other. lia. Qed.

(* addBufferAt: never hangs, panics only at the 64-chunk limit, and writes at most one EMPTY slot at or above bufIdx *)
Lemma add_buffer_at_spec cs k m : length cs = nbuf -> m <= max_alloc ->
  match add_buffer_at cs k m with
  | ABHang => False
  | ABPanic => True
  | ABOk cs' =>
      length cs' = length cs /\ k < lenN cs /\
      forall i, i < k \/ chunk_len cs i <> 0 -> nthN cs' i None = nthN cs i None
  end.
Proof.
  intros Hlen Hm. unfold add_buffer_at.
  pose proof (ab_find_spec 65 cs k m) as Hs.
  pose proof (ab_find_notlimit 64 cs k m) as Hnl.
  destruct (ab_find 65 cs k m) as [| |j|] eqn:E.
  - exact I.
  - repeat split; auto.
  - destruct Hs as (Hkj & Hj & Hz).
    destruct (page_size_some (chunk_len cs (j - 1)) m Hm) as (p & -> & _ & _).
    repeat split.
    + unfold updN. apply length_upd.
    + apply Hnl. congruence.
    + intros i Hi. apply nthN_updN_other. intros ->. lia.
  - unfold nbuf in Hlen. lia.
Qed.

Lemma trim_loop_length cs : forall a m, length (trim_loop cs a m) = length cs.
Proof.
  induction cs as [|c r IH]; intros a m; cbn [trim_loop]; auto.
  destruct c as [l|]; auto. destruct (l =? 0); auto.
  destruct (a + l <? m); cbn [length]; now rewrite IH.
Qed.

Lemma trim_loop_nth cs : forall a m i,
  nth i (trim_loop cs a m) None = nth i cs None \/ nth i (trim_loop cs a m) None = None.
Proof.
  induction cs as [|c r IH]; intros a m i; cbn [trim_loop]; auto.
  destruct c as [l|]; auto. destruct (l =? 0); auto.
  destruct (a + l <? m); destruct i as [|i]; cbn [nth]; auto.
Qed.

(* ------------------------------------------------------------------------------------------------ *)
(* the invariant                                                                                     *)
(* ------------------------------------------------------------------------------------------------ *)
Definition sz_ok (sz : N) : Prop := 0 < sz /\ sz <= max_alloc.
Definition panic_ok (p : apanic) : Prop := p = PTooBig \/ p = PLimit64.

Definition pc_ok (st : astate) (p : apc) : Prop :=
  match p with
  | TIdle => True
  | TDone (OPanic e) => panic_ok e
  | TDone _ => True
  | TReq sz | TUnlocking sz => sz_ok sz
  | TAdded sz pos =>
      sz_ok sz /\ cidx pos <= cur st /\ sz <= cpos pos /\ (cidx pos = cur st -> cpos pos <= off st)
  | TFits sz b p =>
      sz_ok sz /\ b <= cur st /\ sz <= p /\ (b = cur st -> p <= off st) /\ p <= chunk_len (chunks st) b
  | TWantLock sz b | TLocked sz b => sz_ok sz /\ b <= cur st
  | TGrow sz b => sz_ok sz /\ b = cur st
  | TGrown sz b => sz_ok sz /\ b = cur st /\ b + 1 < 64
  end.

Definition holds (p : apc) : bool :=
  match p with TLocked _ _ | TGrow _ _ | TGrown _ _ | TUnlocking _ => true | _ => false end.

(* the interval a goroutine owns after its fetch-and-add, until it gives it up (bounds test failed) or returns it *)
Definition grant_of (p : apc) : option (N * N * N) :=
  match p with
  | TAdded sz pos => Some (cidx pos, cpos pos - sz, sz)
  | TFits sz b p => Some (b, p - sz, sz)
  | _ => None
  end.

Definition gdisj (g1 g2 : N * N * N) : Prop :=
  let '(b1, lo1, n1) := g1 in let '(b2, lo2, n2) := g2 in
  b1 <> b2 \/ lo1 + n1 <= lo2 \/ lo2 + n2 <= lo1.

Definition gbound (st : astate) (g : N * N * N) : Prop :=
  let '(b, lo, n) := g in b <= cur st /\ (b = cur st -> lo + n <= off st).

(* a range in the log: not beyond the current position, and inside its chunk unless TrimTo released that chunk *)
Definition hand_ok (st : astate) (g : N * N * N) : Prop :=
  gbound st g /\
  let '(b, lo, n) := g in (nthN (chunks st) b None = None \/ lo + n <= chunk_len (chunks st) b).

Record Inv (st : astate) : Prop := {
  inv_len : length (chunks st) = nbuf;
  inv_cur : cur st < 64;
  inv_pcs : forall t, pc_ok st (get_pc st t);
  inv_lock : forall t, holds (get_pc st t) = true -> lock st = Some t;
  inv_hh : ForallOrdPairs gdisj (handed st);
  inv_hb : Forall (hand_ok st) (handed st);
  inv_th : forall t g, grant_of (get_pc st t) = Some g -> Forall (gdisj g) (handed st);
  inv_tt : forall t1 t2 g1 g2, t1 <> t2 -> grant_of (get_pc st t1) = Some g1 ->
           grant_of (get_pc st t2) = Some g2 -> gdisj g1 g2
}.

Lemma gdisj_sym g1 g2 : gdisj g1 g2 -> gdisj g2 g1.
Proof. destruct g1 as [[b1 l1] n1], g2 as [[b2 l2] n2]; unfold gdisj. intuition. Qed.

Lemma grant_bound st p g : pc_ok st p -> grant_of p = Some g -> gbound st g.
Proof.
  destruct p; cbn [grant_of pc_ok]; try discriminate; intros H E; inversion E; subst; clear E;
    unfold gbound.
  - destruct H as (_ & H1 & H2 & H3). split; auto. intros. specialize (H3 H). lia.
  - destruct H as (_ & H1 & H2 & H3 & _). split; auto. intros. specialize (H3 H). lia.
Qed.

(* a range granted at the current position is disjoint from everything bounded by it *)
Lemma gdisj_fresh st g sz : gbound st g -> gdisj (cur st, off st, sz) g.
Proof.
  destruct g as [[b lo] n]. unfold gbound, gdisj. intros (Hb & Hl).
  destruct (N.eq_dec (cur st) b) as [E|E]; [right; right; apply Hl; auto|left; auto].
Qed.

Lemma pc_ok_frame st st' p :
  cur st' = cur st -> off st <= off st' ->
  (forall b, b <= cur st -> nthN (chunks st') b None = nthN (chunks st) b None) ->
  pc_ok st p -> pc_ok st' p.
Proof.
  intros Hc Ho Hch. destruct p; cbn [pc_ok]; rewrite ?Hc; auto.
  - intros (Hs & H1 & H2 & H). split; [exact Hs|]. split; [exact H1|]. split; [exact H2|].
    intros E. specialize (H E). lia.
  - intros (Hs & Hb & H2 & H & Hl). split; [exact Hs|]. split; [exact Hb|]. split; [exact H2|]. split.
    + intros E. specialize (H E). lia.
    + unfold chunk_len in *. rewrite Hch; auto.
Qed.

Lemma hand_ok_frame st st' g :
  cur st' = cur st -> off st <= off st' ->
  (forall b, b <= cur st -> nthN (chunks st') b None = nthN (chunks st) b None) ->
  hand_ok st g -> hand_ok st' g.
Proof.
  intros Hc Ho Hch. destruct g as [[b lo] n]. unfold hand_ok, gbound. rewrite Hc.
  intros ((Hb & Hl) & Hin). split; [split; [exact Hb|]|].
  - intros E. specialize (Hl E). lia.
  - unfold chunk_len in *. rewrite Hch; auto.
Qed.

(* after the Store of (b+1, 0): everything granted so far lies in earlier chunks *)
Lemma pc_ok_next st st' p :
  cur st' = cur st + 1 -> chunks st' = chunks st ->
  (match p with TGrow _ _ | TGrown _ _ => False | _ => True end) ->
  pc_ok st p -> pc_ok st' p.
Proof.
  intros Hc Hch Hp. destruct p; cbn [pc_ok]; rewrite ?Hc, ?Hch; auto; try contradiction.
  - intros (Hs & H1 & H2 & H). split; [exact Hs|]. split; [lia|]. split; [exact H2|]. intros; lia.
  - intros (Hs & Hb & H2 & H & Hl). split; [exact Hs|]. split; [lia|]. split; [exact H2|].
    split; [intros; lia|exact Hl].
  - intros (? & ?); split; auto; lia.
  - intros (? & ?); split; auto; lia.
Qed.

Lemma hand_ok_next st st' g :
  cur st' = cur st + 1 -> chunks st' = chunks st -> hand_ok st g -> hand_ok st' g.
Proof.
  intros Hc Hch. destruct g as [[b lo] n]. unfold hand_ok, gbound. rewrite Hc, Hch.
  intros ((Hb & Hl) & Hin). split; [split; [lia|intros; lia]|exact Hin].
Qed.

Lemma pc_ok_returned st st' p : pc_returned p = true -> pc_ok st p -> pc_ok st' p.
Proof. destruct p; cbn; auto; discriminate. Qed.

(* ------------------------------------------------------------------------------------------------ *)
(* preservation                                                                                      *)
(* ------------------------------------------------------------------------------------------------ *)
Ltac sstate := cbn [compIdx chunks lock threads handed set_pc set_comp set_chunks set_lock set_handed] in *.

Lemma get_pc_threads st st' t : threads st' = threads st -> get_pc st' t = get_pc st t.
Proof. unfold get_pc. now intros ->. Qed.

Lemma get_pc_upd st st' t p' t' : threads st' = upd (threads st) t p' -> (t < length (threads st))%nat ->
  get_pc st' t' = if Nat.eq_dec t t' then p' else get_pc st t'.
Proof.
  intros E Ht. unfold get_pc. rewrite E. destruct (Nat.eq_dec t t').
  - subst. now apply nth_upd_same.
  - now apply nth_upd_other.
Qed.

(* thread t moves to pc p'; the log is unchanged *)
Lemma inv_update st st' t p' :
  Inv st -> (t < length (threads st))%nat ->
  threads st' = upd (threads st) t p' ->
  handed st' = handed st ->
  length (chunks st') = nbuf -> cur st' < 64 ->
  pc_ok st' p' ->
  (forall t', t' <> t -> pc_ok st' (get_pc st t')) ->
  (holds p' = true -> lock st' = Some t) ->
  (forall t', t' <> t -> holds (get_pc st t') = true -> lock st' = Some t') ->
  Forall (hand_ok st') (handed st) ->
  (forall g, grant_of p' = Some g ->
     Forall (gdisj g) (handed st) /\
     (forall t' g', t' <> t -> grant_of (get_pc st t') = Some g' -> gdisj g g')) ->
  Inv st'.
Proof.
  intros HI Ht Hth Hh Hlen Hcur Hnew Hoth Hl1 Hl2 Hhb Hg.
  pose proof (fun t' => get_pc_upd st st' t p' t' Hth Ht) as G.
  constructor; auto.
  - intros t'. rewrite G. destruct (Nat.eq_dec t t'); auto.
  - intros t'. rewrite G. destruct (Nat.eq_dec t t'); [subst; auto|auto].
  - rewrite Hh. apply (inv_hh _ HI).
  - rewrite Hh. exact Hhb.
  - intros t' g. rewrite G, Hh. destruct (Nat.eq_dec t t').
    + intros E. apply (Hg g E).
    + apply (inv_th _ HI).
  - intros t1 t2 g1 g2 Hne. rewrite !G.
    destruct (Nat.eq_dec t t1), (Nat.eq_dec t t2); subst.
    + congruence.
    + intros E1 E2. apply (proj2 (Hg g1 E1) t2 g2); auto.
    + intros E1 E2. apply gdisj_sym. apply (proj2 (Hg g2 E2) t1 g1); auto.
    + apply (inv_tt _ HI); auto.
Qed.

(* the same state except for the pc of t, whose grant (if any) is the one it already had *)
Lemma inv_update_pc st t p' :
  Inv st -> (t < length (threads st))%nat ->
  pc_ok st p' ->
  (holds p' = true -> holds (get_pc st t) = true) ->
  (forall g, grant_of p' = Some g -> grant_of (get_pc st t) = Some g) ->
  Inv (set_pc st t p').
Proof.
  intros HI Ht Hnew Hl Hg.
  apply (inv_update st (set_pc st t p') t p'); sstate; auto.
  - apply (inv_len _ HI).
  - apply (inv_cur _ HI).
  - intros t' _. apply (inv_pcs _ HI).
  - intros H. apply (inv_lock _ HI). auto.
  - intros t' _. apply (inv_lock _ HI).
  - apply (inv_hb _ HI).
  - intros g E. specialize (Hg g E). split.
    + apply (inv_th _ HI t g Hg).
    + intros t' g' Hne E'. apply (inv_tt _ HI t t' g g'); auto.
Qed.

Lemma quiescent_returned st t : a_quiescent st = true -> pc_returned (get_pc st t) = true.
Proof.
  unfold a_quiescent, get_pc. intros H. rewrite forallb_forall in H.
  destruct (Nat.lt_ge_cases t (length (threads st))).
  - apply H. now apply nth_In.
  - now rewrite nth_overflow by lia.
Qed.

Lemma returned_no_grant p : pc_returned p = true -> grant_of p = None.
Proof. destruct p; cbn; auto; discriminate. Qed.
Lemma returned_not_holds p : pc_returned p = true -> holds p = false.
Proof. destruct p; cbn; auto; discriminate. Qed.

Lemma lenN_chunks st : Inv st -> lenN (chunks st) = 64.
Proof. intros HI. unfold lenN. rewrite (inv_len _ HI). reflexivity. Qed.

Lemma inv_faa st t sz :
  Inv st -> get_pc st t = TReq sz -> off st + sz < two32 ->
  Inv (set_pc (set_comp st (add64 (compIdx st) sz)) t (TAdded sz (add64 (compIdx st) sz))).
Proof.
  intros HI E Hnc.
  assert (Ht : (t < length (threads st))%nat) by (apply get_pc_live; congruence).
  destruct (faa_nocarry (compIdx st) sz (inv_cur _ HI) Hnc) as (Ea & Ec & Ep).
  rewrite Ea. set (pos := compIdx st + sz) in *.
  pose proof (inv_pcs _ HI t) as Hp. rewrite E in Hp. cbn [pc_ok] in Hp.
  assert (Hc' : cur (set_pc (set_comp st pos) t (TAdded sz pos)) = cur st) by (unfold cur; sstate; exact Ec).
  assert (Ho' : off (set_pc (set_comp st pos) t (TAdded sz pos)) = off st + sz) by (unfold off; sstate; exact Ep).
  apply (inv_update st _ t (TAdded sz pos)); [exact HI|exact Ht|reflexivity|reflexivity| | | | | | | | ].
  - apply (inv_len _ HI).
  - rewrite Hc'. apply (inv_cur _ HI).
  - cbn [pc_ok]. rewrite Hc', Ho', Ec, Ep. unfold cur, off. repeat split; try apply Hp; lia.
  - intros t' _. apply (pc_ok_frame st); auto; [lia|apply (inv_pcs _ HI)].
  - cbn. discriminate.
  - intros t' _. sstate. apply (inv_lock _ HI).
  - eapply Forall_impl; [|apply (inv_hb _ HI)]. intros g. apply hand_ok_frame; auto. lia.
  - intros g Eg. cbn [grant_of] in Eg. rewrite Ec, Ep in Eg.
    replace (cpos (compIdx st) + sz - sz) with (off st) in Eg by (unfold off; lia).
    change (cidx (compIdx st)) with (cur st) in Eg. inversion Eg; subst g; clear Eg. split.
    + eapply Forall_impl; [|apply (inv_hb _ HI)]. intros g (Hb & _). now apply gdisj_fresh.
    + intros t' g' _ Eg'. apply gdisj_fresh. apply (grant_bound st (get_pc st t')); auto. apply (inv_pcs _ HI).
Qed.

Lemma inv_added st t sz pos st' :
  Inv st -> get_pc st t = TAdded sz pos ->
  (if lenN (chunks st) <=? cidx pos then Some (set_pc st t (TDone (OPanic (PIndex (cidx pos)))))
   else if chunk_len (chunks st) (cidx pos) <? cpos pos then Some (set_pc st t (TWantLock sz (cidx pos)))
   else Some (set_pc st t (TFits sz (cidx pos) (cpos pos)))) = Some st' ->
  Inv st'.
Proof.
  intros HI E H.
  assert (Ht : (t < length (threads st))%nat) by (apply get_pc_live; congruence).
  pose proof (inv_pcs _ HI t) as Hp. rewrite E in Hp. cbn [pc_ok] in Hp. destruct Hp as (Hs & Hb & Hsp & Hpo).
  pose proof (inv_cur _ HI) as Hcur. rewrite (lenN_chunks _ HI) in H.
  destruct (N.leb_spec 64 (cidx pos)); [lia|].
  destruct (N.ltb_spec (chunk_len (chunks st) (cidx pos)) (cpos pos)); inversion H; subst st'; clear H.
  - apply inv_update_pc; auto; cbn; try discriminate. split; auto.
  - apply inv_update_pc; auto.
    + cbn [pc_ok]. repeat split; auto; apply Hs.
    + cbn. discriminate.
    + rewrite E. cbn [grant_of]. auto.
Qed.

Lemma inv_fits st t sz b p st' :
  Inv st -> get_pc st t = TFits sz b p ->
  (if p <? sz then Some (set_pc st t (TDone (OPanic (PSlice p sz))))
   else Some (set_pc (set_handed st ((b, p - sz, sz) :: handed st)) t (TDone (ORange b (p - sz) sz)))) = Some st' ->
  Inv st'.
Proof.
  intros HI E H.
  assert (Ht : (t < length (threads st))%nat) by (apply get_pc_live; congruence).
  pose proof (inv_pcs _ HI t) as Hp. rewrite E in Hp. cbn [pc_ok] in Hp.
  destruct Hp as (Hs & Hb & Hsp & Hpo & Hl).
  destruct (N.ltb_spec p sz); [lia|]. inversion H; subst st'; clear H.
  set (g := (b, p - sz, sz)).
  assert (Eg : grant_of (get_pc st t) = Some g) by (rewrite E; reflexivity).
  set (st' := set_pc (set_handed st (g :: handed st)) t (TDone (ORange b (p - sz) sz))).
  assert (G : forall t', get_pc st' t' = if Nat.eq_dec t t' then TDone (ORange b (p - sz) sz) else get_pc st t').
  { intros t'. apply get_pc_upd; auto. }
  constructor.
  - apply (inv_len _ HI).
  - apply (inv_cur _ HI).
  - intros t'. rewrite G. destruct (Nat.eq_dec t t'); [exact I|]. apply (inv_pcs _ HI).
  - intros t'. rewrite G. destruct (Nat.eq_dec t t'); [cbn; discriminate|]. apply (inv_lock _ HI).
  - unfold st'; sstate. constructor; [apply (inv_th _ HI t g Eg)|apply (inv_hh _ HI)].
  - unfold st'; sstate. constructor; [|apply (inv_hb _ HI)].
    unfold hand_ok, gbound, g. repeat split; auto.
    + intros Ec. specialize (Hpo Ec). unfold st', off in *; sstate. lia.
    + right. replace (p - sz + sz) with p by lia. exact Hl.
  - intros t' g'. rewrite G. destruct (Nat.eq_dec t t'); [discriminate|]. intros Eg'.
    unfold st'; sstate. constructor; [|apply (inv_th _ HI t' g' Eg')].
    apply (inv_tt _ HI t' t g' g); auto.
  - intros t1 t2 g1 g2 Hne. rewrite !G.
    destruct (Nat.eq_dec t t1); [discriminate|]. destruct (Nat.eq_dec t t2); [discriminate|].
    apply (inv_tt _ HI); auto.
Qed.

Lemma inv_lock_unique st t t' : Inv st -> holds (get_pc st t) = true -> holds (get_pc st t') = true -> t' = t.
Proof.
  intros HI H1 H2. pose proof (inv_lock _ HI t H1) as L1. pose proof (inv_lock _ HI t' H2) as L2. congruence.
Qed.

Lemma inv_wantlock st t sz b :
  Inv st -> get_pc st t = TWantLock sz b -> lock st = None ->
  Inv (set_pc (set_lock st (Some t)) t (TLocked sz b)).
Proof.
  intros HI E HL.
  assert (Ht : (t < length (threads st))%nat) by (apply get_pc_live; congruence).
  pose proof (inv_pcs _ HI t) as Hp. rewrite E in Hp.
  apply (inv_update st _ t (TLocked sz b)); [exact HI|exact Ht|reflexivity|reflexivity| | | | | | | | ].
  - apply (inv_len _ HI).
  - apply (inv_cur _ HI).
  - exact Hp.
  - intros t' _. apply (inv_pcs _ HI).
  - reflexivity.
  - intros t' _ Hh. pose proof (inv_lock _ HI t' Hh). congruence.
  - apply (inv_hb _ HI).
  - cbn. discriminate.
Qed.

Lemma inv_locked st t sz b :
  Inv st -> get_pc st t = TLocked sz b ->
  Inv (set_pc st t (if cidx (compIdx st) =? b then TGrow sz b else TUnlocking sz)).
Proof.
  intros HI E.
  assert (Ht : (t < length (threads st))%nat) by (apply get_pc_live; congruence).
  pose proof (inv_pcs _ HI t) as Hp. rewrite E in Hp. cbn [pc_ok] in Hp. destruct Hp as (Hs & Hb).
  apply inv_update_pc; auto.
  - destruct (N.eqb_spec (cidx (compIdx st)) b); cbn [pc_ok]; [split; [exact Hs|unfold cur; congruence]|exact Hs].
  - rewrite E. reflexivity.
  - destruct (cidx (compIdx st) =? b); cbn; discriminate.
Qed.

Lemma inv_grow st t sz b st' :
  Inv st -> get_pc st t = TGrow sz b ->
  match add_buffer_at (chunks st) (b + 1) sz with
  | ABPanic => Some (set_pc st t (TDone (OPanic PLimit64)))
  | ABHang => Some (set_pc st t (TDone (OPanic PHang)))
  | ABOk cs => Some (set_pc (set_chunks st cs) t (TGrown sz b))
  end = Some st' ->
  Inv st'.
Proof.
  intros HI E H.
  assert (Ht : (t < length (threads st))%nat) by (apply get_pc_live; congruence).
  pose proof (inv_pcs _ HI t) as Hp. rewrite E in Hp. cbn [pc_ok] in Hp. destruct Hp as (Hs & Hb).
  pose proof (add_buffer_at_spec (chunks st) (b + 1) sz (inv_len _ HI) (proj2 Hs)) as Hab.
  destruct (add_buffer_at (chunks st) (b + 1) sz) as [| |cs]; [|contradiction|]; inversion H; subst st'; clear H.
  - apply inv_update_pc; auto; cbn; try discriminate. right; reflexivity.
  - destruct Hab as (Hlen & Hk & Hsame). rewrite (lenN_chunks _ HI) in Hk.
    assert (Hch : forall b', b' <= cur st -> nthN cs b' None = nthN (chunks st) b' None).
    { intros b' Hb'. apply Hsame. left. lia. }
    apply (inv_update st _ t (TGrown sz b)); [exact HI|exact Ht|reflexivity|reflexivity| | | | | | | | ].
    + sstate. rewrite Hlen. apply (inv_len _ HI).
    + apply (inv_cur _ HI).
    + cbn [pc_ok]. repeat split; auto; apply Hs.
    + intros t' _. apply (pc_ok_frame st); auto; [reflexivity|apply (inv_pcs _ HI)].
    + intros _. sstate. apply (inv_lock _ HI). rewrite E. reflexivity.
    + intros t' _. sstate. apply (inv_lock _ HI).
    + eapply Forall_impl; [|apply (inv_hb _ HI)]. intros g. apply hand_ok_frame; auto. reflexivity.
    + cbn. discriminate.
Qed.

Lemma inv_grown st t sz b :
  Inv st -> get_pc st t = TGrown sz b ->
  Inv (set_pc (set_comp st (u64 ((b + 1) * two32))) t (TUnlocking sz)).
Proof.
  intros HI E.
  assert (Ht : (t < length (threads st))%nat) by (apply get_pc_live; congruence).
  pose proof (inv_pcs _ HI t) as Hp. rewrite E in Hp. cbn [pc_ok] in Hp. destruct Hp as (Hs & Hb & Hb1).
  destruct (store_next b Hb1) as (Ec & Ep).
  set (st' := set_pc (set_comp st (u64 ((b + 1) * two32))) t (TUnlocking sz)).
  assert (Hc' : cur st' = cur st + 1) by (unfold cur, st'; sstate; rewrite Ec; unfold cur in Hb; lia).
  assert (Hh : holds (get_pc st t) = true) by (rewrite E; reflexivity).
  apply (inv_update st st' t (TUnlocking sz)); [exact HI|exact Ht|reflexivity|reflexivity| | | | | | | | ].
  - apply (inv_len _ HI).
  - rewrite Hc'. lia.
  - exact Hs.
  - intros t' Hne. apply (pc_ok_next st); auto; [|apply (inv_pcs _ HI)].
    destruct (get_pc st t') eqn:E'; auto;
      (exfalso; apply Hne; apply (inv_lock_unique st t t' HI Hh); rewrite E'; reflexivity).
  - intros _. unfold st'; sstate. apply (inv_lock _ HI); auto.
  - intros t' _. unfold st'; sstate. apply (inv_lock _ HI).
  - eapply Forall_impl; [|apply (inv_hb _ HI)]. intros g. apply hand_ok_next; auto.
  - cbn. discriminate.
Qed.

Lemma inv_unlocking st t sz :
  Inv st -> get_pc st t = TUnlocking sz -> Inv (set_pc (set_lock st None) t (TReq sz)).
Proof.
  intros HI E.
  assert (Ht : (t < length (threads st))%nat) by (apply get_pc_live; congruence).
  pose proof (inv_pcs _ HI t) as Hp. rewrite E in Hp. cbn [pc_ok] in Hp.
  assert (Hh : holds (get_pc st t) = true) by (rewrite E; reflexivity).
  apply (inv_update st _ t (TReq sz)); [exact HI|exact Ht|reflexivity|reflexivity| | | | | | | | ].
  - apply (inv_len _ HI).
  - apply (inv_cur _ HI).
  - exact Hp.
  - intros t' _. apply (inv_pcs _ HI).
  - cbn. discriminate.
  - intros t' Hne Hh'. exfalso. apply Hne. apply (inv_lock_unique st t t' HI Hh Hh').
  - apply (inv_hb _ HI).
  - cbn. discriminate.
Qed.

Lemma inv_thread_step st t st' :
  Inv st -> thread_step st t = Some st' ->
  match get_pc st t with TReq sz => off st + sz < two32 | _ => True end ->
  Inv st'.
Proof.
  intros HI H Hnc. unfold thread_step in H. destruct (get_pc st t) eqn:E; try discriminate.
  - inversion H; subst st'. now apply inv_faa.
  - eapply inv_added; eauto.
  - eapply inv_fits; eauto.
  - destruct (lock st) eqn:EL; [discriminate|]. inversion H; subst st'. now apply inv_wantlock.
  - pose proof (inv_locked st t sz b HI E) as H'.
    destruct (cidx (compIdx st) =? b); inversion H; subst st'; exact H'.
  - eapply inv_grow; eauto.
  - inversion H; subst st'. now apply inv_grown.
  - inversion H; subst st'. now apply inv_unlocking.
Qed.

Lemma inv_start st t sz :
  Inv st -> (t < length (threads st))%nat -> pc_returned (get_pc st t) = true -> Inv (set_pc st t (start_pc sz)).
Proof.
  intros HI Ht Hr. apply inv_update_pc; auto.
  - unfold start_pc. destruct (N.ltb_spec max_alloc sz); [left; reflexivity|].
    destruct (N.eqb_spec sz 0); cbn [pc_ok]; auto. split; lia.
  - unfold start_pc. destruct (max_alloc <? sz); [discriminate|]. destruct (sz =? 0); discriminate.
  - unfold start_pc. destruct (max_alloc <? sz); [discriminate|]. destruct (sz =? 0); discriminate.
Qed.

Lemma inv_reset st : Inv st -> a_quiescent st = true -> Inv (set_handed (set_comp st 0) []).
Proof.
  intros HI Hq. pose proof (quiescent_returned st) as Hr.
  constructor; sstate.
  - apply (inv_len _ HI).
  - reflexivity.
  - intros t. apply (pc_ok_returned st); [apply Hr; auto|apply (inv_pcs _ HI)].
  - intros t Hh. change (get_pc (set_handed (set_comp st 0) []) t) with (get_pc st t) in Hh.
    rewrite returned_not_holds in Hh by auto. discriminate.
  - constructor.
  - constructor.
  - intros t g _. constructor.
  - intros t1 t2 g1 g2 _ E1. change (get_pc (set_handed (set_comp st 0) []) t1) with (get_pc st t1) in E1.
    rewrite returned_no_grant in E1 by auto. discriminate.
Qed.

Lemma inv_trim st max : Inv st -> a_quiescent st = true -> Inv (set_chunks st (trim_loop (chunks st) 0 max)).
Proof.
  intros HI Hq. pose proof (quiescent_returned st) as Hr.
  constructor; sstate.
  - rewrite trim_loop_length. apply (inv_len _ HI).
  - apply (inv_cur _ HI).
  - intros t. apply (pc_ok_returned st); [apply Hr; auto|apply (inv_pcs _ HI)].
  - intros t Hh. change (get_pc (set_chunks st (trim_loop (chunks st) 0 max)) t) with (get_pc st t) in Hh.
    rewrite returned_not_holds in Hh by auto. discriminate.
  - apply (inv_hh _ HI).
  - eapply Forall_impl; [|apply (inv_hb _ HI)]. intros [[b lo] n]. unfold hand_ok, gbound.
    intros (Hb & Hin). split; [exact Hb|]. sstate.
    destruct (trim_loop_nth (chunks st) 0 max (N.to_nat b)) as [Eq|Eq].
    + unfold chunk_len, nthN in *. rewrite Eq. exact Hin.
    + left. exact Eq.
  - intros t g E. change (get_pc (set_chunks st (trim_loop (chunks st) 0 max)) t) with (get_pc st t) in E.
    rewrite returned_no_grant in E by auto. discriminate.
  - intros t1 t2 g1 g2 _ E1.
    change (get_pc (set_chunks st (trim_loop (chunks st) 0 max)) t1) with (get_pc st t1) in E1.
    rewrite returned_no_grant in E1 by auto. discriminate.
Qed.

Lemma nocarry_step_off st t : nocarry_step st (AcStep t) ->
  match get_pc st t with TReq sz => off st + sz < two32 | _ => True end.
Proof. unfold nocarry_step, off. auto. Qed.

Theorem inv_agstep st c st' : Inv st -> agstep st c = Some st' -> nocarry_step st c -> Inv st'.
Proof.
  intros HI H Hnc. destruct c as [t sz|t| |max]; cbn [agstep astep] in H.
  - destruct (Nat.ltb_spec t (length (threads st))); [|discriminate]. cbn [andb] in H.
    destruct (pc_returned (get_pc st t)) eqn:Hr; [|discriminate]. inversion H; subst st'. now apply inv_start.
  - eapply inv_thread_step; [exact HI|exact H|now apply nocarry_step_off].
  - destruct (a_quiescent st) eqn:Hq; [|discriminate]. inversion H; subst st'. now apply inv_reset.
  - destruct (a_quiescent st) eqn:Hq; [|discriminate]. inversion H; subst st'. now apply inv_trim.
Qed.

Theorem inv_agrun sched : forall st, Inv st -> nocarry_run st sched -> Inv (agrun st sched).
Proof.
  induction sched as [|c rest IH]; intros st HI Hnc; [exact HI|].
  unfold agrun in *. cbn [run_with nocarry_run] in *.
  destruct (agstep st c) as [st'|] eqn:E.
  - destruct Hnc as (H1 & H2). apply IH; auto. eapply inv_agstep; eauto.
  - apply IH; auto.
Qed.

Lemma nth_repeat_idle n t : nth t (repeat TIdle n) TIdle = TIdle.
Proof. revert t; induction n as [|n IH]; intros [|t]; cbn; auto. Qed.

Lemma inv_new n sz : Inv (alloc_new n sz).
Proof.
  assert (G : forall t, get_pc (alloc_new n sz) t = TIdle) by (intros t; apply nth_repeat_idle).
  constructor; unfold alloc_new; sstate.
  - cbn [length]. rewrite repeat_length. reflexivity.
  - reflexivity.
  - intros t. rewrite G. exact I.
  - intros t. rewrite G. discriminate.
  - constructor.
  - constructor.
  - intros t g. rewrite G. discriminate.
  - intros t1 t2 g1 g2 _. rewrite G. discriminate.
Qed.

(* ------------------------------------------------------------------------------------------------ *)
(* chunks are never replaced or resized (so handed-out memory never moves), except that TrimTo frees  *)
(* ------------------------------------------------------------------------------------------------ *)
Lemma add_buffer_at_stable cs k m cs' : add_buffer_at cs k m = ABOk cs' ->
  length cs' = length cs /\ forall i, chunk_len cs i <> 0 -> nthN cs' i None = nthN cs i None.
Proof.
  unfold add_buffer_at. pose proof (ab_find_spec 65 cs k m) as Hs.
  destruct (ab_find 65 cs k m) as [| |j|]; try discriminate.
  - intros E; inversion E; subst. auto.
  - destruct Hs as (_ & _ & Hz). destruct (page_size _ m); [|discriminate].
    intros E; inversion E; subst. split; [apply length_upd|].
    intros i Hi. apply nthN_updN_other. congruence.
Qed.

Lemma thread_step_chunks st t st' : thread_step st t = Some st' ->
  length (chunks st') = length (chunks st) /\
  forall i, chunk_len (chunks st) i <> 0 -> nthN (chunks st') i None = nthN (chunks st) i None.
Proof.
  unfold thread_step. intros H.
  destruct (get_pc st t); try discriminate;
    repeat match type of H with
           | (if ?c then _ else _) = _ => destruct c
           | match lock st with _ => _ end = _ => destruct (lock st)
           end; try discriminate; try (inversion H; subst st'; sstate; auto; fail).
  destruct (add_buffer_at (chunks st) (b + 1) sz) eqn:E; inversion H; subst st'; sstate; auto.
  now apply add_buffer_at_stable in E.
Qed.

Theorem chunks_stable st c st' : astep st c = Some st' -> (forall max, c <> AcTrim max) ->
  length (chunks st') = length (chunks st) /\
  forall i l, nthN (chunks st) i None = Some l -> 0 < l -> nthN (chunks st') i None = Some l.
Proof.
  intros H Hc.
  assert (G : length (chunks st') = length (chunks st) /\
              forall i, chunk_len (chunks st) i <> 0 -> nthN (chunks st') i None = nthN (chunks st) i None).
  { destruct c as [t sz|t| |max]; cbn [astep] in H.
    - destruct ((t <? length (threads st))%nat && pc_returned (get_pc st t)); inversion H; subst; sstate; auto.
    - now apply thread_step_chunks in H.
    - inversion H; subst; sstate; auto.
    - exfalso. now apply (Hc max). }
  destruct G as (G1 & G2). split; auto. intros i l E Hl. rewrite G2; auto.
  unfold chunk_len. rewrite E. lia.
Qed.

Theorem trim_only_frees st max i : 
  nthN (chunks (a_trim_to st max)) i None = nthN (chunks st) i None \/ nthN (chunks (a_trim_to st max)) i None = None.
Proof. unfold a_trim_to. cbn [astep]. sstate. apply trim_loop_nth. Qed.

(* ------------------------------------------------------------------------------------------------ *)
(* exact length; what a returning call appends to the log                                            *)
(* ------------------------------------------------------------------------------------------------ *)
Definition req_size (p : apc) : option N :=
  match p with
  | TReq sz | TAdded sz _ | TFits sz _ _ | TWantLock sz _ | TLocked sz _ | TGrow sz _ | TGrown sz _
  | TUnlocking sz => Some sz
  | _ => None
  end.

Lemma thread_step_size st t st' sz :
  req_size (get_pc st t) = Some sz -> thread_step st t = Some st' ->
  match get_pc st' t with
  | TDone (ORange b lo n) => n = sz /\ handed st' = (b, lo, n) :: handed st
  | TDone _ => True
  | p' => req_size p' = Some sz
  end /\ forall t', t' <> t -> get_pc st' t' = get_pc st t'.
Proof.
  intros Hr H.
  assert (Ht : (t < length (threads st))%nat).
  { apply get_pc_live. intros E. rewrite E in Hr. discriminate. }
  unfold thread_step in H.
  destruct (get_pc st t) eqn:E; try discriminate; cbn [req_size] in Hr; inversion Hr; subst;
    repeat match type of H with
           | (if ?c then _ else _) = _ => destruct c
           | match lock st with _ => _ end = _ => destruct (lock st)
           | match add_buffer_at ?a ?b ?c with _ => _ end = _ => destruct (add_buffer_at a b c)
           end; try discriminate; inversion H; subst st'; clear H;
    (split; [rewrite get_set_same by (sstate; auto); cbn; auto|
            intros t' Hne; rewrite get_set_other by auto; reflexivity]).
Qed.

Lemma run_thread_done fuel st t o : get_pc st t = TDone o -> run_thread fuel st t = (st, Some o).
Proof. destruct fuel; cbn [run_thread]; intros ->; reflexivity. Qed.

Lemma run_thread_unfold fuel st t : (forall o, get_pc st t <> TDone o) ->
  run_thread (S fuel) st t =
  match thread_step st t with None => (st, None) | Some st' => run_thread fuel st' t end.
Proof. intros H. cbn [run_thread]. destruct (get_pc st t); try reflexivity. exfalso. eapply H; eauto. Qed.

Lemma run_thread_zero st t : (forall o, get_pc st t <> TDone o) -> run_thread 0 st t = (st, None).
Proof. intros H. cbn [run_thread]. destruct (get_pc st t); try reflexivity. exfalso. eapply H; eauto. Qed.

Lemma req_size_not_done p sz : req_size p = Some sz -> forall o, p <> TDone o.
Proof. intros H o ->. discriminate. Qed.

Lemma run_thread_size fuel : forall st t sz st' b lo n,
  req_size (get_pc st t) = Some sz -> run_thread fuel st t = (st', Some (ORange b lo n)) -> n = sz.
Proof.
  induction fuel as [|f IH]; intros st t sz st' b lo n Hr H.
  - rewrite run_thread_zero in H by (eapply req_size_not_done; eauto). discriminate.
  - rewrite run_thread_unfold in H by (eapply req_size_not_done; eauto).
    destruct (thread_step st t) as [st1|] eqn:Es; [|discriminate].
    destruct (thread_step_size st t st1 sz Hr Es) as (Hm & _).
    destruct (get_pc st1 t) as [| | | | | | | | |o] eqn:E1;
      try (eapply IH; [rewrite E1; exact Hm|exact H]).
    rewrite (run_thread_done f st1 t o E1) in H. inversion H; subst. destruct Hm; auto.
Qed.

Lemma alloc_seq_size st t sz st' b lo n : alloc_seq st t sz = (st', Some (ORange b lo n)) -> n = sz.
Proof.
  unfold alloc_seq. cbn [astep].
  destruct ((t <? length (threads st))%nat && pc_returned (get_pc st t)) eqn:Eg; [|discriminate].
  apply andb_prop in Eg. destruct Eg as (Ht & _). apply Nat.ltb_lt in Ht.
  intros H.
  assert (G : get_pc (set_pc st t (start_pc sz)) t = start_pc sz) by (apply get_set_same; auto).
  unfold start_pc in G, H. revert G H.
  destruct (max_alloc <? sz) eqn:E1; [|destruct (sz =? 0) eqn:E2]; intros G H.
  - rewrite (run_thread_done _ _ _ _ G) in H. discriminate.
  - rewrite (run_thread_done _ _ _ _ G) in H. discriminate.
  - eapply run_thread_size; [|exact H]. rewrite G. reflexivity.
Qed.

(* ------------------------------------------------------------------------------------------------ *)
(* AllocateAligned, Copy                                                                             *)
(* ------------------------------------------------------------------------------------------------ *)
Lemma align_pad_spec base o : align_pad base o <= 7 /\ (base + o + align_pad base o) mod 8 = 0.
Proof. unfold align_pad. split; lia. Qed.

Lemma mem_zero_in m c o len c' o' : c' = c -> o <= o' < o + len -> mem_zero m c o len c' o' = 0.
Proof.
  intros -> H. unfold mem_zero. rewrite N.eqb_refl.
  destruct (N.leb_spec o o'); destruct (N.ltb_spec o' (o + len)); try lia. reflexivity.
Qed.
Lemma mem_zero_out m c o len c' o' : ~ (c' = c /\ o <= o' < o + len) -> mem_zero m c o len c' o' = m c' o'.
Proof.
  intros H. unfold mem_zero.
  destruct (N.eqb_spec c' c); destruct (N.leb_spec o o'); destruct (N.ltb_spec o' (o + len));
    cbn [andb]; auto. exfalso. apply H. lia.
Qed.
Lemma mem_write_out m c o bs c' o' : ~ (c' = c /\ o <= o' < o + lenN bs) -> mem_write m c o bs c' o' = m c' o'.
Proof.
  intros H. unfold mem_write.
  destruct (N.eqb_spec c' c); destruct (N.leb_spec o o'); destruct (N.ltb_spec o' (o + lenN bs));
    cbn [andb]; auto. exfalso. apply H. lia.
Qed.

Lemma map_nth_seq {A} (l : list A) d : map (fun i => nth i l d) (seq 0 (length l)) = l.
Proof.
  induction l as [|a l IH]; cbn [length seq map nth]; auto.
  f_equal. rewrite <- seq_shift, map_map. exact IH.
Qed.

Lemma mem_read_write m c o bs : mem_read (mem_write m c o bs) c o (lenN bs) = bs.
Proof.
  unfold mem_read, seqN, lenN. rewrite Nat2N.id, map_map.
  etransitivity; [|apply (map_nth_seq bs 0)]. apply map_ext_in. intros k Hk. apply in_seq in Hk.
  unfold mem_write, lenN, nthN. rewrite N.eqb_refl.
  destruct (N.leb_spec o (o + N.of_nat k)); [|lia].
  destruct (N.ltb_spec (o + N.of_nat k) (o + N.of_nat (length bs))); [|lia].
  cbn [andb]. f_equal. lia.
Qed.

Theorem aligned_seq_spec bases st m t sz st' m' c o n :
  aligned_seq bases st m t sz = (st', m', Some (ORange c o n)) ->
  exists o0, alloc_seq st t (sz + 7) = (st', Some (ORange c o0 (sz + 7))) /\
    n = sz /\ (bases c + o) mod 8 = 0 /\ o0 <= o /\ o + n <= o0 + (sz + 7) /\
    (forall i, i < n -> m' c (o + i) = 0) /\
    (forall c' o', ~ (c' = c /\ o0 <= o' < o0 + (sz + 7)) -> m' c' o' = m c' o').
Proof.
  unfold aligned_seq. destruct (alloc_seq st t (sz + 7)) as [st1 [o1|]] eqn:E; [|intros H; inversion H].
  destruct o1 as [|c1 o0 n0|e]; cbn [aligned_of]; intros H; inversion H; subst; clear H.
  pose proof (alloc_seq_size _ _ _ _ _ _ _ E) as ->.
  pose proof (align_pad_spec (bases c) o0) as (Hp & Hm).
  exists o0. split; [reflexivity|]. split; [reflexivity|]. split; [rewrite N.add_assoc; exact Hm|].
  split; [lia|]. split; [lia|]. split.
  - intros i Hi. apply mem_zero_in; auto. lia.
  - intros c' o' Hn. apply mem_zero_out. exact Hn.
Qed.

Theorem copy_seq_spec st m t bs st' m' c o n :
  copy_seq st m t bs = (st', m', Some (ORange c o n)) ->
  alloc_seq st t (lenN bs) = (st', Some (ORange c o n)) /\ n = lenN bs /\
  mem_read m' c o n = bs /\
  (forall c' o', ~ (c' = c /\ o <= o' < o + n) -> m' c' o' = m c' o').
Proof.
  unfold copy_seq. destruct (alloc_seq st t (lenN bs)) as [st1 [o1|]] eqn:E; [|intros H; inversion H].
  destruct o1 as [|c1 o0 n0|e]; intros H; inversion H; subst; clear H.
  pose proof (alloc_seq_size _ _ _ _ _ _ _ E) as ->.
  split; [reflexivity|]. split; [reflexivity|]. split; [apply mem_read_write|].
  intros c' o' Hn. apply mem_write_out. exact Hn.
Qed.

(* ------------------------------------------------------------------------------------------------ *)
(* what the invariant says about the log; corollaries used by Properties/C12.v                        *)
(* ------------------------------------------------------------------------------------------------ *)
Definition overlaps (g1 g2 : N * N * N) : Prop :=
  let '(b1, lo1, n1) := g1 in let '(b2, lo2, n2) := g2 in
  b1 = b2 /\ lo1 < lo2 + n2 /\ lo2 < lo1 + n1.

Lemma gdisj_not_overlaps g1 g2 : gdisj g1 g2 -> ~ overlaps g1 g2.
Proof. destruct g1 as [[b1 l1] n1], g2 as [[b2 l2] n2]; unfold gdisj, overlaps. lia. Qed.

Definition in_chunk (st : astate) (g : N * N * N) : Prop :=
  let '(b, lo, n) := g in
  b < 64 /\ (nthN (chunks st) b None = None \/ lo + n <= chunk_len (chunks st) b).

Theorem disjoint_all_schedules nthreads sz0 sched :
  nocarry_run (alloc_new nthreads sz0) sched ->
  let st := agrun (alloc_new nthreads sz0) sched in
  ForallOrdPairs gdisj (handed st) /\
  Forall (in_chunk st) (handed st) /\
  (forall t g, grant_of (get_pc st t) = Some g -> Forall (gdisj g) (handed st)) /\
  (forall t1 t2 g1 g2, t1 <> t2 -> grant_of (get_pc st t1) = Some g1 -> grant_of (get_pc st t2) = Some g2 ->
     gdisj g1 g2) /\
  (forall t e, get_pc st t = TDone (OPanic e) -> e = PTooBig \/ e = PLimit64) /\
  cidx (compIdx st) < 64 /\ length (chunks st) = nbuf.
Proof.
  intros Hnc st. assert (HI : Inv st) by (apply inv_agrun; [apply inv_new|exact Hnc]).
  split; [apply (inv_hh _ HI)|]. split.
  { eapply Forall_impl; [|apply (inv_hb _ HI)]. intros [[b lo] n] ((Hb & _) & Hin).
    split; auto. pose proof (inv_cur _ HI). lia. }
  split; [apply (inv_th _ HI)|]. split; [apply (inv_tt _ HI)|]. split.
  { intros t e E. pose proof (inv_pcs _ HI t) as Hp. rewrite E in Hp. exact Hp. }
  split; [apply (inv_cur _ HI)|apply (inv_len _ HI)].
Qed.

Theorem add_buffer_at_total cs k m : length cs = nbuf -> m <= max_alloc -> add_buffer_at cs k m <> ABHang.
Proof.
  intros Hl Hm E. pose proof (add_buffer_at_spec cs k m Hl Hm) as H. now rewrite E in H.
Qed.

Theorem page_size_prefix_diverges fuel m : 0 < m -> page_size_prefix fuel 0 m = None.
Proof. intros Hm. unfold page_size_prefix. change (2 * 0) with 0. now rewrite grow_loop_zero. Qed.

(* ------------------------------------------------------------------------------------------------ *)
(* single goroutine: the regime is automatic, replay after Reset                                     *)
(* ------------------------------------------------------------------------------------------------ *)
Definition chunk_bound (cs : list (option N)) : Prop := forall i, chunk_len cs i <= 2 * max_alloc.

Definition seq_pc (st : astate) (p : apc) : Prop :=
  match p with
  | TDone (OPanic PTooBig) => off st <= 2 * max_alloc /\ lock st = None
  | TDone (OPanic _) => True
  | TIdle | TDone _ | TReq _ => off st <= 2 * max_alloc /\ lock st = None
  | TAdded sz pos => pos = compIdx st /\ off st <= 2 * max_alloc + sz /\ lock st = None
  | TFits sz b p => b = cur st /\ p = off st /\ lock st = None
  | TWantLock sz b => b = cur st /\ lock st = None
  | TLocked sz b | TGrow sz b | TGrown sz b => b = cur st
  | TUnlocking sz => off st = 0
  end.

Record SeqX (st : astate) : Prop := {
  sx_inv : Inv st;
  sx_one : length (threads st) = 1%nat;
  sx_cb : chunk_bound (chunks st);
  sx_pc : seq_pc st (get_pc st 0)
}.

Lemma page_size_le prev m p : page_size prev m = Some p -> p <= max_alloc.
Proof.
  unfold page_size. destruct (grow_loop 64 _ m) as [q|]; [|discriminate].
  destruct (N.ltb_spec max_alloc q); intros E; inversion E; subst; lia.
Qed.

Lemma add_buffer_at_bound cs k m cs' : add_buffer_at cs k m = ABOk cs' -> chunk_bound cs -> chunk_bound cs'.
Proof.
  unfold add_buffer_at. destruct (ab_find 65 cs k m) as [| |j|]; try discriminate.
  - intros E; inversion E; subst; auto.
  - destruct (page_size _ m) as [p|] eqn:Ep; [|discriminate]. intros E; inversion E; subst. intros Hb i.
    apply page_size_le in Ep. unfold chunk_len.
    destruct (N.eq_dec j i) as [->|Hne].
    + destruct (N.ltb_spec i (lenN cs)).
      * rewrite nthN_updN_same by auto. rewrite max_alloc_val in *. lia.
      * unfold updN. rewrite upd_oob by (unfold lenN in *; lia). apply Hb.
    + rewrite nthN_updN_other by auto. apply Hb.
Qed.

Lemma one_thread st t : length (threads st) = 1%nat -> get_pc st t <> TIdle -> t = 0%nat.
Proof. intros H1 H. apply get_pc_live in H. lia. Qed.

Lemma get_pc_other_one st t : length (threads st) = 1%nat -> t <> 0%nat -> get_pc st t = TIdle.
Proof. intros H1 Ht. unfold get_pc. apply nth_overflow. lia. Qed.

Definition ext (cs cf : list (option N)) : Prop :=
  length cf = length cs /\ forall i, chunk_len cs i <> 0 -> nthN cf i None = nthN cs i None.
Definition frozen (st : astate) (cf : list (option N)) : Prop :=
  forall i, i <= cur st -> nthN cf i None = nthN (chunks st) i None.

Lemma ext_refl cs : ext cs cs.
Proof. split; auto. Qed.
Lemma ext_trans a b c : ext a b -> ext b c -> ext a c.
Proof.
  intros (L1 & H1) (L2 & H2). split; [congruence|]. intros i Hi. rewrite H2; [apply H1; auto|].
  unfold chunk_len in *. rewrite H1; auto.
Qed.

Lemma seqx_nocarry st sz : SeqX st -> get_pc st 0 = TReq sz -> off st + sz < two32.
Proof.
  intros HX E. pose proof (sx_pc _ HX) as Hp. rewrite E in Hp. cbn [seq_pc] in Hp.
  pose proof (inv_pcs _ (sx_inv _ HX) 0%nat) as Hk. rewrite E in Hk. cbn [pc_ok] in Hk.
  destruct Hk as (_ & Hk). rewrite two32_val, max_alloc_val in *. lia.
Qed.

Lemma seqx_step st st' : SeqX st -> thread_step st 0 = Some st' ->
  SeqX st' /\ cur st <= cur st' /\ ext (chunks st) (chunks st') /\ frozen st (chunks st').
Proof.
  intros HX H.
  assert (HI' : Inv st').
  { eapply inv_thread_step; [apply (sx_inv _ HX)|exact H|].
    destruct (get_pc st 0) eqn:E; auto. now apply seqx_nocarry. }
  pose proof (sx_inv _ HX) as HI. pose proof (sx_one _ HX) as H1. pose proof (sx_cb _ HX) as Hcb.
  pose proof (sx_pc _ HX) as Hp. pose proof (inv_pcs _ HI 0%nat) as Hk.
  assert (H0 : (0 < length (threads st))%nat) by lia.
  unfold thread_step in H. destruct (get_pc st 0) eqn:E; try discriminate; cbn [seq_pc pc_ok] in Hp, Hk.
  - (* TReq *)
    pose proof (seqx_nocarry st sz HX E) as Hnc.
    destruct (faa_nocarry (compIdx st) sz (inv_cur _ HI) Hnc) as (Ea & Ec & Ep).
    inversion H; subst st'; clear H. rewrite Ea in *.
    split; [|split; [|split]].
    + constructor; auto.
      * rewrite length_set_pc. exact H1.
      * rewrite get_set_same by (sstate; auto). cbn [seq_pc]. unfold off, cur in *. sstate.
        rewrite Ep. split; [reflexivity|]. split; [lia|apply Hp].
    + unfold cur; sstate. rewrite Ec. lia.
    + apply ext_refl.
    + intros i _. reflexivity.
  - (* TAdded *)
    destruct Hp as (-> & Hoff & HL).
    assert (G : forall p', SeqX (set_pc st 0 p') <-> (Inv (set_pc st 0 p') /\ seq_pc st p')).
    { intros p'. split.
      - intros HX'. split; [apply (sx_inv _ HX')|]. pose proof (sx_pc _ HX') as Hq.
        rewrite get_set_same in Hq by auto. exact Hq.
      - intros (Hi & Hq). constructor; auto; [rewrite length_set_pc; auto|rewrite get_set_same by auto; exact Hq]. }
    change (cidx (compIdx st)) with (cur st) in *. change (cpos (compIdx st)) with (off st) in *.
    assert (R : SeqX st' /\ chunks st' = chunks st /\ cur st' = cur st).
    { destruct (lenN (chunks st) <=? cur st); [|destruct (chunk_len (chunks st) (cur st) <? off st) eqn:El];
        inversion H; subst st'; (split; [apply G; split; [exact HI'|]|split; reflexivity]); cbn [seq_pc]; auto. }
    destruct R as (R1 & R2 & R3). split; [exact R1|]. split; [lia|]. rewrite R2. split; [apply ext_refl|intros i _; reflexivity].
  - (* TFits *)
    destruct Hp as (-> & -> & HL). destruct Hk as (_ & _ & _ & _ & Hle).
    pose proof (Hcb (cur st)) as Hcbc.
    assert (R : SeqX st' /\ chunks st' = chunks st /\ cur st' = cur st).
    { destruct (off st <? sz); inversion H; subst st'; (split; [|split; reflexivity]);
        (constructor; [exact HI'|rewrite length_set_pc; exact H1|exact Hcb|]);
        rewrite get_set_same by (sstate; auto); cbn [seq_pc]; auto.
      split; [|exact HL]. change (off (set_pc (set_handed st ((cur st, off st - sz, sz) :: handed st)) 0
                                           (TDone (ORange (cur st) (off st - sz) sz)))) with (off st). lia. }
    destruct R as (R1 & R2 & R3). split; [exact R1|]. split; [lia|]. rewrite R2. split; [apply ext_refl|intros i _; reflexivity].
  - (* TWantLock *)
    destruct Hp as (-> & HL). rewrite HL in H. inversion H; subst st'; clear H.
    split; [|split; [unfold cur; sstate; lia|split; [apply ext_refl|intros i _; reflexivity]]].
    constructor; auto; [rewrite length_set_pc; exact H1|].
    rewrite get_set_same by (sstate; auto). cbn [seq_pc]. reflexivity.
  - (* TLocked *)
    subst b. unfold cur in H. rewrite N.eqb_refl in H. inversion H; subst st'; clear H.
    split; [|split; [unfold cur; sstate; lia|split; [apply ext_refl|intros i _; reflexivity]]].
    constructor; auto; [rewrite length_set_pc; exact H1|].
    rewrite get_set_same by auto. cbn [seq_pc]. reflexivity.
  - (* TGrow *)
    subst b. destruct Hk as (Hs & _).
    pose proof (add_buffer_at_spec (chunks st) (cur st + 1) sz (inv_len _ HI) (proj2 Hs)) as Hab.
    destruct (add_buffer_at (chunks st) (cur st + 1) sz) as [| |cs] eqn:Eab; [|contradiction|];
      inversion H; subst st'; clear H.
    + split; [|split; [unfold cur; sstate; lia|split; [apply ext_refl|intros i _; reflexivity]]].
      constructor; auto; [rewrite length_set_pc; exact H1|].
      rewrite get_set_same by auto. cbn [seq_pc]. exact I.
    + destruct Hab as (Hlen & Hk1 & Hsame).
      split; [|split; [unfold cur; sstate; lia|split]].
      * constructor; auto; [rewrite length_set_pc; exact H1| |].
        -- sstate. eapply add_buffer_at_bound; eauto.
        -- rewrite get_set_same by (sstate; auto). cbn [seq_pc]. reflexivity.
      * sstate. apply add_buffer_at_stable in Eab. exact Eab.
      * intros i Hi. sstate. apply Hsame. left. lia.
  - (* TGrown *)
    subst b. destruct Hk as (_ & _ & Hb1). destruct (store_next (cur st) Hb1) as (Ec & Ep).
    inversion H; subst st'; clear H.
    split; [|split; [unfold cur in *; sstate; rewrite Ec; lia|split; [apply ext_refl|intros i _; reflexivity]]].
    constructor; auto; [rewrite length_set_pc; exact H1|].
    rewrite get_set_same by (sstate; auto). cbn [seq_pc]. unfold off; sstate. exact Ep.
  - (* TUnlocking *)
    inversion H; subst st'; clear H.
    split; [|split; [unfold cur; sstate; lia|split; [apply ext_refl|intros i _; reflexivity]]].
    constructor; auto; [rewrite length_set_pc; exact H1|].
    rewrite get_set_same by (sstate; auto). cbn [seq_pc]. unfold off, cur in *; sstate. split; [lia|reflexivity].
Qed.

Lemma frozen_mono st st' cf : cur st <= cur st' -> frozen st (chunks st') -> frozen st' cf -> frozen st cf.
Proof. intros Hc F1 F2 i Hi. rewrite F2 by lia. apply F1; auto. Qed.

(* what the rest of a call can still do to the chunks *)
Lemma run_thread_future fuel : forall st st' o, SeqX st -> run_thread fuel st 0 = (st', o) ->
  SeqX st' /\ cur st <= cur st' /\ ext (chunks st) (chunks st') /\ frozen st (chunks st').
Proof.
  induction fuel as [|f IH]; intros st st' o HX H.
  - cbn [run_thread] in H. assert (st' = st) by (destruct (get_pc st 0); inversion H; auto). subst.
    split; auto. split; [lia|]. split; [apply ext_refl|intros i _; reflexivity].
  - cbn [run_thread] in H.
    assert (D : (exists o', get_pc st 0 = TDone o' /\ st' = st) \/
                (match thread_step st 0 with None => (st, None) | Some s1 => run_thread f s1 0 end) = (st', o)).
    { destruct (get_pc st 0) eqn:E; auto. left. exists o0. inversion H; auto. }
    destruct D as [(o' & _ & ->)|D].
    + split; auto. split; [lia|]. split; [apply ext_refl|intros i _; reflexivity].
    + destruct (thread_step st 0) as [s1|] eqn:Es.
      * destruct (seqx_step st s1 HX Es) as (HX1 & Hc1 & He1 & Hf1).
        destruct (IH s1 st' o HX1 D) as (HX' & Hc' & He' & Hf').
        split; auto. split; [lia|]. split; [eapply ext_trans; eauto|].
        eapply frozen_mono; eauto.
      * inversion D; subst. split; auto. split; [lia|]. split; [apply ext_refl|intros i _; reflexivity].
Qed.

(* ---- the second run: same state except that the chunks are already the final ones ---- *)
Definition rel (sA sB : astate) (cf : list (option N)) : Prop :=
  compIdx sB = compIdx sA /\ lock sB = lock sA /\ threads sB = threads sA /\ handed sB = handed sA /\ chunks sB = cf.

Lemma rel_get sA sB cf t : rel sA sB cf -> get_pc sB t = get_pc sA t.
Proof. intros (_ & _ & Ht & _). unfold get_pc. now rewrite Ht. Qed.

Lemma ab_find_ext fuel cs cf m : ext cs cf -> forall i,
  match ab_find fuel cs i m with
  | ABEnough => ab_find fuel cf i m = ABEnough
  | ABLimit => ab_find fuel cf i m = ABLimit
  | ABSlot j => forall p, nthN cf j None = Some p -> m <= p -> 0 < p -> ab_find fuel cf i m = ABEnough
  | ABFuel => True
  end.
Proof.
  intros (Hl & He). induction fuel as [|f IH]; intros i; cbn [ab_find]; auto.
  assert (El : lenN cf = lenN cs) by (unfold lenN; now rewrite Hl). rewrite El.
  destruct (N.leb_spec (lenN cs) i); auto.
  destruct (N.eqb_spec (chunk_len cs i) 0) as [Hz|Hnz].
  - intros p Ep Hm Hp. unfold chunk_len at 1. rewrite Ep.
    destruct (N.eqb_spec p 0); [lia|]. unfold chunk_len. rewrite Ep.
    destruct (N.leb_spec m p); [reflexivity|lia].
  - assert (Ec : chunk_len cf i = chunk_len cs i) by (unfold chunk_len; now rewrite He).
    rewrite Ec. destruct (N.eqb_spec (chunk_len cs i) 0); [contradiction|].
    destruct (N.leb_spec m (chunk_len cs i)); auto. apply IH.
Qed.

Lemma add_buffer_at_ext cs cf k m : length cs = nbuf -> m <= max_alloc ->
  match add_buffer_at cs k m with
  | ABOk cs' => ext cs' cf -> add_buffer_at cf k m = ABOk cf
  | ABPanic => ext cs cf -> add_buffer_at cf k m = ABPanic
  | ABHang => True
  end.
Proof.
  intros Hlen Hm. unfold add_buffer_at.
  pose proof (ab_find_spec 65 cs k m) as Hs.
  destruct (ab_find 65 cs k m) as [| |j|] eqn:E; auto.
  - intros He. pose proof (ab_find_ext 65 cs cf m He k) as Hx. rewrite E in Hx. now rewrite Hx.
  - intros He. pose proof (ab_find_ext 65 cs cf m He k) as Hx. rewrite E in Hx. now rewrite Hx.
  - destruct Hs as (Hkj & Hj & Hz).
    destruct (page_size_some (chunk_len cs (j - 1)) m Hm) as (p & Ep & Hmp & Hp). rewrite Ep.
    intros (Hl & He).
    assert (Ej : nthN cf j None = Some p).
    { rewrite He; [apply nthN_updN_same; auto|]. unfold chunk_len. rewrite nthN_updN_same by auto. lia. }
    (* cf also extends cs: every non-empty slot of cs is untouched by the update *)
    assert (He0 : ext cs cf).
    { split; [rewrite Hl; unfold updN; apply length_upd|].
      intros i Hi. rewrite He.
      - apply nthN_updN_other. intros ->. contradiction.
      - unfold chunk_len. rewrite nthN_updN_other by (intros ->; contradiction). exact Hi. }
    pose proof (ab_find_ext 65 cs cf m He0 k) as Hx. rewrite E in Hx. now rewrite (Hx p Ej Hmp Hp).
Qed.

Lemma sim_step sA sB cf sA1 : SeqX sA -> rel sA sB cf -> thread_step sA 0 = Some sA1 ->
  ext (chunks sA1) cf -> frozen sA1 cf ->
  exists sB1, thread_step sB 0 = Some sB1 /\ rel sA1 sB1 cf.
Proof.
  intros HX HR H He Hf.
  pose proof (rel_get sA sB cf 0%nat HR) as G. destruct HR as (Rc & Rl & Rt & Rh & Rk).
  pose proof (sx_inv _ HX) as HI. pose proof (sx_pc _ HX) as Hp. pose proof (inv_pcs _ HI 0%nat) as Hk.
  unfold thread_step in *. rewrite G. destruct (get_pc sA 0) eqn:E; try discriminate; cbn [seq_pc pc_ok] in Hp, Hk.
  - inversion H; subst sA1. eexists; split; [reflexivity|]. unfold rel, set_pc, set_comp; sstate. rewrite Rc, Rt. auto.
  - destruct Hp as (-> & _ & _).
    assert (El : lenN (chunks sB) = lenN (chunks sA)).
    { destruct He as (Hl & _). unfold lenN. rewrite Rk, Hl.
      destruct (lenN (chunks sA) <=? cidx (compIdx sA));
        [|destruct (chunk_len (chunks sA) (cidx (compIdx sA)) <? cpos (compIdx sA))]; inversion H; subst; reflexivity. }
    assert (Ec : chunk_len (chunks sB) (cidx (compIdx sA)) = chunk_len (chunks sA) (cidx (compIdx sA))).
    { unfold chunk_len. rewrite Rk.
      assert (Hfz : nthN cf (cidx (compIdx sA)) None = nthN (chunks sA1) (cidx (compIdx sA)) None).
      { apply Hf. unfold cur.
        destruct (lenN (chunks sA) <=? cidx (compIdx sA));
          [|destruct (chunk_len (chunks sA) (cidx (compIdx sA)) <? cpos (compIdx sA))]; inversion H; subst; sstate; lia. }
      rewrite Hfz.
      destruct (lenN (chunks sA) <=? cidx (compIdx sA));
        [|destruct (chunk_len (chunks sA) (cidx (compIdx sA)) <? cpos (compIdx sA))]; inversion H; subst; reflexivity. }
    rewrite El, Ec.
    destruct (lenN (chunks sA) <=? cidx (compIdx sA));
      [|destruct (chunk_len (chunks sA) (cidx (compIdx sA)) <? cpos (compIdx sA))]; inversion H; subst sA1;
      (eexists; split; [reflexivity|]); unfold rel, set_pc; sstate; rewrite Rt; auto.
  - destruct (p <? sz); inversion H; subst sA1; (eexists; split; [reflexivity|]);
      unfold rel, set_pc, set_handed; sstate; rewrite Rt, Rh; auto.
  - rewrite Rl. destruct (lock sA); [discriminate|]. inversion H; subst sA1.
    eexists; split; [reflexivity|]. unfold rel, set_pc, set_lock; sstate. rewrite Rt; auto.
  - rewrite Rc. destruct (cidx (compIdx sA) =? b); inversion H; subst sA1; (eexists; split; [reflexivity|]);
      unfold rel, set_pc; sstate; rewrite Rt; auto.
  - subst b. destruct Hk as (Hs & _).
    pose proof (add_buffer_at_ext (chunks sA) cf (cur sA + 1) sz (inv_len _ HI) (proj2 Hs)) as Hx.
    rewrite Rk.
    destruct (add_buffer_at (chunks sA) (cur sA + 1) sz) as [| |cs] eqn:Eab; inversion H; subst sA1; sstate.
    + rewrite (Hx He). eexists; split; [reflexivity|]. unfold rel, set_pc; sstate. rewrite Rt; auto.
    + pose proof (add_buffer_at_spec (chunks sA) (cur sA + 1) sz (inv_len _ HI) (proj2 Hs)) as Hab.
      rewrite Eab in Hab. contradiction.
    + rewrite (Hx He). eexists; split; [reflexivity|]. unfold rel, set_pc, set_chunks; sstate. rewrite Rt; auto.
  - inversion H; subst sA1. eexists; split; [reflexivity|]. unfold rel, set_pc, set_comp; sstate. rewrite Rt; auto.
  - inversion H; subst sA1. eexists; split; [reflexivity|]. unfold rel, set_pc, set_lock; sstate. rewrite Rt; auto.
Qed.

Lemma sim_step_none sA sB cf : rel sA sB cf -> thread_step sA 0 = None -> thread_step sB 0 = None.
Proof.
  intros HR H. pose proof (rel_get sA sB cf 0%nat HR) as G. destruct HR as (Rc & Rl & Rt & Rh & Rk).
  unfold thread_step in *. rewrite G.
  destruct (get_pc sA 0); auto;
    repeat match type of H with
           | (if ?c then _ else _) = _ => destruct c
           | match add_buffer_at ?a ?b ?c with _ => _ end = _ => destruct (add_buffer_at a b c)
           end; try discriminate.
  rewrite Rl. reflexivity.
Qed.

Lemma pc_done_dec p : (exists o, p = TDone o) \/ (forall o, p <> TDone o).
Proof. destruct p; try (right; intros o; discriminate). left; eauto. Qed.

Lemma sim_run_thread fuel : forall sA sB sAe o cf, SeqX sA -> rel sA sB cf ->
  run_thread fuel sA 0 = (sAe, o) -> ext (chunks sAe) cf -> frozen sAe cf ->
  exists sBe, run_thread fuel sB 0 = (sBe, o) /\ rel sAe sBe cf.
Proof.
  induction fuel as [|f IH]; intros sA sB sAe o cf HX HR H He Hf;
    pose proof (rel_get sA sB cf 0%nat HR) as G;
    destruct (pc_done_dec (get_pc sA 0)) as [(o' & E)|E].
  - rewrite (run_thread_done _ _ _ _ E) in H. inversion H; subst.
    exists sB. rewrite (run_thread_done 0 sB 0%nat o'); [auto|congruence].
  - rewrite run_thread_zero in H by auto. inversion H; subst.
    exists sB. rewrite run_thread_zero; [auto|]. rewrite G; auto.
  - rewrite (run_thread_done _ _ _ _ E) in H. inversion H; subst.
    exists sB. rewrite (run_thread_done (S f) sB 0%nat o'); [auto|congruence].
  - rewrite run_thread_unfold in H by auto. rewrite run_thread_unfold by (rewrite G; auto).
    destruct (thread_step sA 0) as [sA1|] eqn:Es.
    + destruct (seqx_step sA sA1 HX Es) as (HX1 & _).
      destruct (run_thread_future f sA1 sAe o HX1 H) as (_ & Hc & He1 & Hf1).
      destruct (sim_step sA sB cf sA1 HX HR Es) as (sB1 & EsB & HR1).
      { eapply ext_trans; eauto. }
      { eapply frozen_mono; eauto. }
      rewrite EsB. eapply IH; eauto.
    + rewrite (sim_step_none sA sB cf HR Es). inversion H; subst. exists sB; auto.
Qed.

Lemma run_thread_result fuel : forall st t st' o, run_thread fuel st t = (st', Some o) -> get_pc st' t = TDone o.
Proof.
  induction fuel as [|f IH]; intros st t st' o H; destruct (pc_done_dec (get_pc st t)) as [(o' & E)|E].
  - rewrite (run_thread_done _ _ _ _ E) in H. inversion H; subst; auto.
  - rewrite run_thread_zero in H by auto. discriminate.
  - rewrite (run_thread_done _ _ _ _ E) in H. inversion H; subst; auto.
  - rewrite run_thread_unfold in H by auto. destruct (thread_step st t); [eauto|discriminate].
Qed.

Definition good (o : option aoutcome) : Prop :=
  match o with
  | Some ONil | Some (ORange _ _ _) | Some (OPanic PTooBig) => True
  | _ => False
  end.

(* between calls: the goroutine is back, the mutex is free, the offset is inside the current chunk *)
Definition SeqQ (st : astate) : Prop :=
  SeqX st /\ pc_returned (get_pc st 0) = true /\ off st <= 2 * max_alloc /\ lock st = None.

Lemma upd_one {A} (l : list A) p : length l = 1%nat -> upd l 0 p = [p].
Proof. destruct l as [|a [|b l]]; cbn; intros; try discriminate; reflexivity. Qed.

Lemma seqq_start st sz : SeqQ st -> SeqX (set_pc st 0 (start_pc sz)).
Proof.
  intros (HX & Hr & Ho & Hl). pose proof (sx_one _ HX) as H1.
  constructor.
  - apply inv_start; [apply (sx_inv _ HX)|lia|exact Hr].
  - rewrite length_set_pc. exact H1.
  - apply (sx_cb _ HX).
  - rewrite get_set_same by lia. unfold start_pc.
    destruct (max_alloc <? sz); [|destruct (sz =? 0)]; cbn [seq_pc]; auto.
Qed.

Lemma alloc_seq_unfold st sz : SeqQ st -> alloc_seq st 0 sz = run_thread seq_fuel (set_pc st 0 (start_pc sz)) 0.
Proof.
  intros (HX & Hr & _). unfold alloc_seq. cbn [astep]. rewrite Hr, (sx_one _ HX). reflexivity.
Qed.

Lemma alloc_seq_future st sz st' o : SeqQ st -> alloc_seq st 0 sz = (st', o) ->
  cur st <= cur st' /\ ext (chunks st) (chunks st') /\ frozen st (chunks st') /\ (good o -> SeqQ st').
Proof.
  intros HQ H. rewrite (alloc_seq_unfold st sz HQ) in H.
  pose proof (seqq_start st sz HQ) as HX0.
  destruct (run_thread_future _ _ _ _ HX0 H) as (HX' & Hc & He & Hf).
  split; [exact Hc|]. split; [exact He|]. split; [exact Hf|].
  intros Hg. destruct o as [o|]; [|contradiction].
  pose proof (run_thread_result _ _ _ _ _ H) as E. pose proof (sx_pc _ HX') as Hp. rewrite E in Hp.
  split; [exact HX'|]. split; [rewrite E; reflexivity|].
  destruct o as [| |[]]; cbn [good seq_pc] in *; try contradiction; exact Hp.
Qed.

Lemma alloc_list_future szs : forall st st' outs, SeqQ st -> alloc_list st 0 szs = (st', outs) -> Forall good outs ->
  SeqQ st' /\ cur st <= cur st' /\ ext (chunks st) (chunks st') /\ frozen st (chunks st').
Proof.
  induction szs as [|sz r IH]; intros st st' outs HQ H Hg; cbn [alloc_list] in H.
  - inversion H; subst. split; auto. split; [lia|]. split; [apply ext_refl|intros i _; reflexivity].
  - destruct (alloc_seq st 0 sz) as [s1 o] eqn:E1. destruct (alloc_list s1 0 r) as [s2 os] eqn:E2.
    inversion H; subst. inversion Hg; subst.
    destruct (alloc_seq_future _ _ _ _ HQ E1) as (Hc1 & He1 & Hf1 & HQ1).
    destruct (IH _ _ _ (HQ1 H2) E2 H3) as (HQ2 & Hc2 & He2 & Hf2).
    split; auto. split; [lia|]. split; [eapply ext_trans; eauto|eapply frozen_mono; eauto].
Qed.

Definition relq (sA sB : astate) (cf : list (option N)) : Prop :=
  compIdx sB = compIdx sA /\ lock sB = lock sA /\ handed sB = handed sA /\ chunks sB = cf /\
  length (threads sB) = 1%nat /\ pc_returned (get_pc sB 0) = true.

Lemma sim_alloc_seq sA sB cf sz sA' o : SeqQ sA -> relq sA sB cf ->
  alloc_seq sA 0 sz = (sA', o) -> ext (chunks sA') cf -> frozen sA' cf ->
  exists sB', alloc_seq sB 0 sz = (sB', o) /\ rel sA' sB' cf.
Proof.
  intros HQ (Rc & Rl & Rh & Rk & R1 & Rr) H He Hf.
  rewrite (alloc_seq_unfold sA sz HQ) in H.
  unfold alloc_seq at 1. cbn [astep]. rewrite Rr, R1. cbn [Nat.ltb Nat.leb andb].
  eapply sim_run_thread; eauto.
  - now apply seqq_start.
  - destruct HQ as (HX & _). unfold rel, set_pc; sstate. rewrite !upd_one by (auto; apply (sx_one _ HX)). auto.
Qed.

Lemma rel_relq sA sB cf : SeqQ sA -> rel sA sB cf -> relq sA sB cf.
Proof.
  intros (HX & Hr & _) HR. pose proof (rel_get sA sB cf 0%nat HR) as G.
  destruct HR as (Rc & Rl & Rt & Rh & Rk). unfold relq. rewrite G, Rt. repeat split; auto. apply (sx_one _ HX).
Qed.

Lemma sim_alloc_list szs : forall sA sB cf sA' outs, SeqQ sA -> relq sA sB cf ->
  alloc_list sA 0 szs = (sA', outs) -> Forall good outs -> ext (chunks sA') cf -> frozen sA' cf ->
  exists sB', alloc_list sB 0 szs = (sB', outs) /\ ((szs = [] /\ sB' = sB) \/ rel sA' sB' cf).
Proof.
  induction szs as [|sz r IH]; intros sA sB cf sA' outs HQ HR H Hg He Hf; cbn [alloc_list] in *.
  - inversion H; subst. exists sB. auto.
  - destruct (alloc_seq sA 0 sz) as [s1 o] eqn:E1. destruct (alloc_list s1 0 r) as [s2 os] eqn:E2.
    inversion H; subst. inversion Hg; subst.
    destruct (alloc_seq_future _ _ _ _ HQ E1) as (_ & _ & _ & HQ1). specialize (HQ1 H2).
    destruct (alloc_list_future _ _ _ _ HQ1 E2 H3) as (_ & Hc2 & He2 & Hf2).
    destruct (sim_alloc_seq sA sB cf sz s1 o HQ HR E1) as (sB1 & EB1 & HR1).
    { eapply ext_trans; eauto. }
    { eapply frozen_mono; eauto. }
    rewrite EB1.
    destruct (IH s1 sB1 cf sA' os HQ1 (rel_relq _ _ _ HQ1 HR1) E2 H3 He Hf) as (sB2 & EB2 & Hend).
    rewrite EB2. exists sB2. split; [reflexivity|]. right.
    destruct Hend as [(-> & ->)|HR2]; [|exact HR2].
    cbn [alloc_list] in E2. inversion E2; subst. exact HR1.
Qed.

(* ---- the states between calls of a single-goroutine history: closed under Reset, TrimTo and successful calls ---- *)
Lemma seqq_quiescent st : SeqQ st -> a_quiescent st = true.
Proof.
  intros (HX & Hr & _). pose proof (sx_one _ HX) as H1. unfold a_quiescent, get_pc in *.
  destruct (threads st) as [|p [|q l]]; try discriminate. cbn in *. now rewrite Hr.
Qed.

Lemma seqq_reset st : SeqQ st -> SeqQ (a_reset st).
Proof.
  intros HQ. pose proof (seqq_quiescent st HQ) as Hq. destruct HQ as (HX & Hr & Ho & Hl).
  assert (Ho' : off (a_reset st) <= 2 * max_alloc) by (change (off (a_reset st)) with 0; lia).
  split; [|split; [exact Hr|split; [exact Ho'|exact Hl]]].
  constructor.
  - apply inv_reset; [apply (sx_inv _ HX)|exact Hq].
  - apply (sx_one _ HX).
  - apply (sx_cb _ HX).
  - change (get_pc (a_reset st) 0) with (get_pc st 0). change (lock (a_reset st)) with (lock st) in *.
    destruct (get_pc st 0) as [| | | | | | | | |[| |[]]]; try discriminate; cbn [seq_pc]; auto.
Qed.

Lemma trim_loop_bound cs : forall a m, chunk_bound cs -> chunk_bound (trim_loop cs a m).
Proof.
  intros a m Hb i. unfold chunk_len, nthN.
  destruct (trim_loop_nth cs a m (N.to_nat i)) as [E|E]; rewrite E; [apply Hb|lia].
Qed.

Lemma seqq_trim st max : SeqQ st -> SeqQ (a_trim_to st max).
Proof.
  intros HQ. pose proof (seqq_quiescent st HQ) as Hq. destruct HQ as (HX & Hr & Ho & Hl).
  split; [|split; [exact Hr|split; [exact Ho|exact Hl]]].
  constructor.
  - apply inv_trim; [apply (sx_inv _ HX)|exact Hq].
  - apply (sx_one _ HX).
  - apply trim_loop_bound. apply (sx_cb _ HX).
  - pose proof (sx_pc _ HX) as Hp. change (get_pc (a_trim_to st max) 0) with (get_pc st 0).
    destruct (get_pc st 0) as [| | | | | | | | |[| |[]]]; try discriminate; exact Hp.
Qed.

Lemma first_chunk_bound sz : sz <= max_alloc -> first_chunk sz <= 2 * max_alloc.
Proof.
  intros Hs. unfold first_chunk, log2_floor.
  set (s := if sz <? 512 then 512 else sz).
  assert (Hs1 : 0 < s /\ s <= max_alloc).
  { unfold s. destruct (N.ltb_spec sz 512); rewrite max_alloc_val in *; lia. }
  destruct (N.log2_spec s (proj1 Hs1)) as (Hlo & _).
  destruct (N.eqb_spec (2 ^ N.log2 s) s); [lia|].
  rewrite N.add_1_r, N.pow_succ_r'. lia.
Qed.

Lemma seqq_new sz : sz <= max_alloc -> SeqQ (alloc_new 1 sz).
Proof.
  intros Hs. split; [|split; [reflexivity|split; [change (off (alloc_new 1 sz)) with 0; lia|reflexivity]]].
  constructor.
  - apply inv_new.
  - reflexivity.
  - intros i. unfold alloc_new; sstate. unfold chunk_len, nthN.
    destruct (N.to_nat i) as [|k]; cbn [nth].
    + now apply first_chunk_bound.
    + destruct (Nat.lt_ge_cases k (nbuf - 1)).
      * assert (E : nth k (repeat (@None N) (nbuf - 1)) None = None).
        { clear. generalize (nbuf - 1)%nat. intros n. revert k. induction n; intros [|k]; cbn; auto. }
        rewrite E. lia.
      * rewrite nth_overflow by (rewrite repeat_length; auto). lia.
  - cbn. split; [change (off (alloc_new 1 sz)) with 0; lia|reflexivity].
Qed.

Lemma rel_eq sA sB : rel sA sB (chunks sA) -> sB = sA.
Proof. destruct sA, sB; unfold rel; cbn. intros (-> & -> & -> & -> & ->). reflexivity. Qed.

(* After Reset, replaying the same requests returns the same ranges and leaves the allocator in the same state: in
   particular `chunks` is unchanged -- no new memory is acquired. *)
Theorem seq_replay st szs st1 outs :
  SeqQ st -> alloc_list (a_reset st) 0 szs = (st1, outs) -> Forall good outs ->
  alloc_list (a_reset st1) 0 szs = (st1, outs) /\ SeqQ st1.
Proof.
  intros HQ H Hg. pose proof (seqq_reset st HQ) as HQ0.
  destruct (alloc_list_future szs _ _ _ HQ0 H Hg) as (HQ1 & _).
  split; [|exact HQ1].
  destruct szs as [|sz r].
  - cbn [alloc_list] in *. inversion H; subst. reflexivity.
  - destruct (sim_alloc_list (sz :: r) (a_reset st) (a_reset st1) (chunks st1) st1 outs HQ0) as (sB & EB & Hend); auto.
    + destruct HQ as (_ & _ & _ & Hl). destruct HQ1 as (HX1 & Hr1 & _ & Hl1).
      unfold relq. change (lock (a_reset st1)) with (lock st1). change (lock (a_reset st)) with (lock st).
      rewrite Hl, Hl1. repeat split; auto. apply (sx_one _ HX1).
    + apply ext_refl.
    + intros i _. reflexivity.
    + destruct Hend as [(Hnil & _)|HR]; [discriminate|].
      rewrite EB. f_equal. now apply rel_eq.
Qed.

Lemma seqq_disjoint st : SeqQ st -> ForallOrdPairs gdisj (handed st) /\ Forall (in_chunk st) (handed st).
Proof.
  intros (HX & _). pose proof (sx_inv _ HX) as HI. split; [apply (inv_hh _ HI)|].
  eapply Forall_impl; [|apply (inv_hb _ HI)]. intros [[b lo] n] ((Hb & _) & Hin).
  split; auto. pose proof (inv_cur _ HI). lia.
Qed.

(* ------------------------------------------------------------------------------------------------ *)
(* a static sufficient condition for the no-carry regime                                             *)
(* ------------------------------------------------------------------------------------------------ *)
Definition sumN (l : list N) : N := fold_right N.add 0 l.

Lemma sumN_upd {A} (f : A -> N) (l : list A) t p d : (t < length l)%nat ->
  sumN (map f (upd l t p)) + f (nth t l d) = sumN (map f l) + f p.
Proof.
  revert t; induction l as [|a l IH]; intros [|t] Ht; cbn [length] in Ht; try lia; cbn [upd map sumN fold_right nth].
  - lia.
  - specialize (IH t ltac:(lia)). unfold sumN in IH. lia.
Qed.

Lemma sumN_le {A} (f : A -> N) (l : list A) b : (forall x, f x <= b) -> sumN (map f l) <= N.of_nat (length l) * b.
Proof.
  intros H. induction l as [|a l IH]; cbn [map sumN fold_right length]; [lia|].
  specialize (H a). unfold sumN in IH. lia.
Qed.

Lemma sumN_ext {A} (f g : A -> N) (l : list A) : (forall x, f x = g x) -> sumN (map f l) = sumN (map g l).
Proof. intros H. induction l as [|a l IH]; cbn [map sumN fold_right]; auto. unfold sumN in IH. now rewrite H, IH. Qed.

(* the bytes a goroutine has added to the offset of the CURRENT chunk by an add that overshot the chunk *)
Definition failed_here (st : astate) (p : apc) : N :=
  match p with
  | TAdded sz pos => if (cidx pos =? cur st) && (chunk_len (chunks st) (cur st) <? cpos pos) then sz else 0
  | TWantLock sz b | TLocked sz b | TGrow sz b | TGrown sz b => if b =? cur st then sz else 0
  | _ => 0
  end.
Definition pend (st : astate) : N := sumN (map (failed_here st) (threads st)).

(* the mutex was left locked by a goroutine that panicked at the 64-chunk limit: nobody will ever hold it again *)
Definition orphaned (st : astate) : Prop := lock st <> None /\ forall t, holds (get_pc st t) = false.

Section StaticRegime.
Variable B : N.

Definition sizes_ok (st : astate) : Prop := forall t sz, req_size (get_pc st t) = Some sz -> sz <= B.

Record K (st : astate) : Prop := {
  k_inv : Inv st;
  k_cb : chunk_bound (chunks st);
  k_sz : sizes_ok st;
  k_off : exists o, (o = 0 \/ (o = B /\ orphaned st)) /\ off st <= 2 * max_alloc + o + pend st
}.

Lemma failed_here_le st p : sizes_ok st -> (exists t, get_pc st t = p) -> failed_here st p <= B.
Proof.
  intros Hs (t & E). specialize (Hs t). rewrite E in Hs.
  destruct p; cbn [failed_here]; try lia;
    repeat match goal with |- context [if ?c then _ else _] => destruct c end; try lia; apply Hs; reflexivity.
Qed.

Lemma pend_le st : sizes_ok st -> pend st <= N.of_nat (length (threads st)) * B.
Proof.
  intros Hs. unfold pend.
  assert (G : forall l, (forall p, In p l -> exists t, get_pc st t = p) ->
              sumN (map (failed_here st) l) <= N.of_nat (length l) * B).
  { induction l as [|a l IH]; intros Hl; cbn [map sumN fold_right length]; [lia|].
    pose proof (failed_here_le st a Hs (Hl a (or_introl eq_refl))).
    assert (sumN (map (failed_here st) l) <= N.of_nat (length l) * B) by (apply IH; intros; apply Hl; now right).
    unfold sumN in *. lia. }
  apply G. intros p Hp. apply In_nth with (d := TIdle) in Hp. destruct Hp as (t & _ & E). exists t. exact E.
Qed.

Lemma K_nocarry st c : K st -> (N.of_nat (length (threads st)) + 2) * B < 2 * max_alloc ->
  nocarry_step st c.
Proof.
  intros HK HB. destruct c; cbn [nocarry_step]; auto.
  destruct (get_pc st t) eqn:E; auto.
  destruct (k_off _ HK) as (o & Ho & Hoff). pose proof (pend_le st (k_sz _ HK)) as Hp.
  pose proof (k_sz _ HK t sz) as Hs. rewrite E in Hs. specialize (Hs eq_refl).
  assert (o <= B) by (destruct Ho as [->|(-> & _)]; lia).
  fold (off st). rewrite two32_val, max_alloc_val in *. nia.
Qed.

Lemma failed_here_frame st st' p : cur st' = cur st ->
  chunk_len (chunks st') (cur st) = chunk_len (chunks st) (cur st) -> failed_here st' p = failed_here st p.
Proof. intros Hc Hl. destruct p; cbn [failed_here]; rewrite ?Hc, ?Hl; reflexivity. Qed.

Lemma pend_update st st' t p' : (t < length (threads st))%nat -> threads st' = upd (threads st) t p' ->
  cur st' = cur st -> chunk_len (chunks st') (cur st) = chunk_len (chunks st) (cur st) ->
  pend st' + failed_here st (get_pc st t) = pend st + failed_here st p'.
Proof.
  intros Ht Hth Hc Hl. unfold pend. rewrite Hth.
  rewrite (sumN_ext (failed_here st') (failed_here st)) by (intros; now apply failed_here_frame).
  apply sumN_upd. exact Ht.
Qed.

Lemma orphaned_update st st' t p' : (t < length (threads st))%nat -> threads st' = upd (threads st) t p' ->
  lock st' = lock st -> holds p' = false -> orphaned st -> orphaned st'.
Proof.
  intros Ht Hth Hl Hh (Ho1 & Ho2). split; [now rewrite Hl|].
  intros t'. rewrite (get_pc_upd st st' t p' t' Hth Ht). destruct (Nat.eq_dec t t'); auto.
Qed.

Lemma koff_update st st' t p' : K st -> (t < length (threads st))%nat -> threads st' = upd (threads st) t p' ->
  cur st' = cur st -> chunk_len (chunks st') (cur st) = chunk_len (chunks st) (cur st) ->
  (orphaned st -> orphaned st') ->
  off st' + failed_here st (get_pc st t) <= off st + failed_here st p' \/ off st' <= 2 * max_alloc ->
  exists o, (o = 0 \/ (o = B /\ orphaned st')) /\ off st' <= 2 * max_alloc + o + pend st'.
Proof.
  intros HK Ht Hth Hc Hl Hor Hoff. destruct (k_off _ HK) as (o & Ho & Hle).
  pose proof (pend_update st st' t p' Ht Hth Hc Hl) as Hp.
  exists o. split; [destruct Ho as [->|(-> & Hx)]; auto|]. destruct Hoff; lia.
Qed.

Lemma sumN_zero {A} (f : A -> N) (l : list A) : (forall x, In x l -> f x = 0) -> sumN (map f l) = 0.
Proof.
  induction l as [|a l IH]; intros H; cbn [map sumN fold_right]; auto.
  rewrite (H a (or_introl eq_refl)). unfold sumN in IH. rewrite IH; [reflexivity|]. intros; apply H; now right.
Qed.

Lemma pend_quiescent st : a_quiescent st = true -> pend st = 0.
Proof.
  unfold a_quiescent, pend. intros H. rewrite forallb_forall in H. apply sumN_zero.
  intros p Hp. specialize (H p Hp). destruct p; cbn in *; try discriminate; reflexivity.
Qed.

Lemma sizes_step st t st' : thread_step st t = Some st' -> sizes_ok st -> sizes_ok st'.
Proof.
  intros H Hs t' sz' E.
  destruct (req_size (get_pc st t)) as [sz|] eqn:Er.
  - destruct (thread_step_size st t st' sz Er H) as (Hm & Hother).
    destruct (Nat.eq_dec t' t) as [->|Hne].
    + destruct (get_pc st' t) as [| | | | | | | | |o] eqn:E1; cbn [req_size] in *; try discriminate;
        try (rewrite Hm in E; inversion E; subst; apply (Hs t sz'); exact Er).
    + rewrite Hother in E by auto. apply (Hs t' sz' E).
  - unfold thread_step in H. destruct (get_pc st t); cbn in Er; discriminate.
Qed.

Lemma bound_step st t st' : thread_step st t = Some st' -> chunk_bound (chunks st) -> chunk_bound (chunks st').
Proof.
  unfold thread_step. intros H Hb.
  destruct (get_pc st t); try discriminate;
    repeat match type of H with
           | (if ?c then _ else _) = _ => destruct c
           end; try discriminate; try (inversion H; subst st'; sstate; auto; fail).
  destruct (add_buffer_at (chunks st) (b + 1) sz) eqn:E; inversion H; subst st'; sstate; auto.
  eapply add_buffer_at_bound; eauto.
Qed.

Lemma K_thread_step st t st' : K st -> thread_step st t = Some st' -> nocarry_step st (AcStep t) -> K st'.
Proof.
  intros HK H Hnc. pose proof (k_inv _ HK) as HI.
  assert (HI' : Inv st') by (eapply inv_thread_step; [exact HI|exact H|now apply nocarry_step_off]).
  constructor; [exact HI'|eapply bound_step; eauto; apply (k_cb _ HK)|eapply sizes_step; eauto; apply (k_sz _ HK)|].
  pose proof (inv_pcs _ HI t) as Hk. pose proof (k_cb _ HK (cur st)) as Hcb.
  assert (Hsz : forall sz, req_size (get_pc st t) = Some sz -> sz <= B) by (intros; eapply (k_sz _ HK); eauto).
  unfold thread_step in H. destruct (get_pc st t) eqn:E; try discriminate; cbn [pc_ok] in Hk.
  all: assert (Ht : (t < length (threads st))%nat) by (apply get_pc_live; congruence).
  - (* Req *)
    apply nocarry_step_off in Hnc. rewrite E in Hnc.
    destruct (faa_nocarry (compIdx st) sz (inv_cur _ HI) Hnc) as (Ea & Ec & Ep).
    inversion H; subst st'; clear H. rewrite Ea.
    apply (koff_update st _ t (TAdded sz (compIdx st + sz)) HK Ht); try reflexivity.
    + unfold cur; sstate. exact Ec.
    + apply orphaned_update with (t := t) (p' := TAdded sz (compIdx st + sz)); auto.
    + rewrite E. cbn [failed_here]. rewrite Ec, Ep. fold (cur st) (off st). rewrite N.eqb_refl. cbn [andb].
      assert (Eo : off (set_pc (set_comp st (compIdx st + sz)) t (TAdded sz (compIdx st + sz))) = off st + sz)
        by (unfold off; sstate; exact Ep).
      rewrite Eo.
      destruct (N.ltb_spec (chunk_len (chunks st) (cur st)) (off st + sz)); [left; lia|right; lia].
  - (* Added *)
    destruct Hk as (Hs & Hb & Hsp & Hpo). pose proof (inv_cur _ HI) as Hcur. rewrite (lenN_chunks _ HI) in H.
    destruct (N.leb_spec 64 (cidx pos)); [lia|].
    destruct (N.ltb_spec (chunk_len (chunks st) (cidx pos)) (cpos pos)); inversion H; subst st'; clear H.
    + apply (koff_update st _ t (TWantLock sz (cidx pos)) HK Ht); try reflexivity.
      * apply orphaned_update with (t := t) (p' := TWantLock sz (cidx pos)); auto.
      * left. rewrite E. cbn [failed_here]. change (off (set_pc st t (TWantLock sz (cidx pos)))) with (off st).
        destruct (N.eqb_spec (cidx pos) (cur st)) as [Eq|]; cbn [andb]; [|lia].
        rewrite <- Eq. destruct (N.ltb_spec (chunk_len (chunks st) (cidx pos)) (cpos pos)); lia.
    + apply (koff_update st _ t (TFits sz (cidx pos) (cpos pos)) HK Ht); try reflexivity.
      * apply orphaned_update with (t := t) (p' := TFits sz (cidx pos) (cpos pos)); auto.
      * left. rewrite E. cbn [failed_here]. change (off (set_pc st t (TFits sz (cidx pos) (cpos pos)))) with (off st).
        destruct (N.eqb_spec (cidx pos) (cur st)) as [Eq|]; cbn [andb]; [|lia].
        rewrite <- Eq. destruct (N.ltb_spec (chunk_len (chunks st) (cidx pos)) (cpos pos)); lia.
  - (* Fits *)
    destruct (p <? sz); inversion H; subst st'; clear H.
    + apply (koff_update st _ t (TDone (OPanic (PSlice p sz))) HK Ht); try reflexivity.
      * apply orphaned_update with (t := t) (p' := TDone (OPanic (PSlice p sz))); auto.
      * left. rewrite E. cbn [failed_here]. change (off (set_pc st t _)) with (off st). lia.
    + apply (koff_update st _ t (TDone (ORange b (p - sz) sz)) HK Ht); try reflexivity.
      * apply orphaned_update with (t := t) (p' := TDone (ORange b (p - sz) sz)); auto.
      * left. rewrite E. cbn [failed_here]. change (off (set_pc (set_handed st _) t _)) with (off st). lia.
  - (* WantLock *)
    destruct (lock st) eqn:EL; [discriminate|]. inversion H; subst st'; clear H.
    apply (koff_update st _ t (TLocked sz b) HK Ht); try reflexivity.
    + intros (Hx & _). congruence.
    + left. rewrite E. cbn [failed_here]. change (off (set_pc (set_lock st (Some t)) t _)) with (off st). lia.
  - (* Locked *)
    assert (Hno : orphaned st -> False).
    { intros (_ & Hx). specialize (Hx t). rewrite E in Hx. discriminate. }
    destruct (N.eqb_spec (cidx (compIdx st)) b) as [Eb|Eb]; inversion H; subst st'; clear H.
    + apply (koff_update st _ t (TGrow sz b) HK Ht); try reflexivity; [intros Hx; destruct (Hno Hx)|].
      left. rewrite E. cbn [failed_here]. change (off (set_pc st t _)) with (off st). lia.
    + apply (koff_update st _ t (TUnlocking sz) HK Ht); try reflexivity; [intros Hx; destruct (Hno Hx)|].
      left. rewrite E. cbn [failed_here]. change (off (set_pc st t _)) with (off st).
      unfold cur. destruct (N.eqb_spec b (cidx (compIdx st))); [congruence|lia].
  - (* Grow *)
    assert (Hno : orphaned st -> False).
    { intros (_ & Hx). specialize (Hx t). rewrite E in Hx. discriminate. }
    destruct Hk as (Hs & Hb).
    pose proof (add_buffer_at_spec (chunks st) (b + 1) sz (inv_len _ HI) (proj2 Hs)) as Hab.
    destruct (add_buffer_at (chunks st) (b + 1) sz) as [| |cs] eqn:Eab; [|contradiction|]; inversion H; subst st'; clear H.
    + (* 64-chunk panic: the failed add stays in the offset, the mutex stays locked *)
      destruct (k_off _ HK) as (o & Ho & Hle).
      assert (o = 0) by (destruct Ho as [->|(_ & Hx)]; [reflexivity|destruct (Hno Hx)]). subst o.
      pose proof (pend_update st (set_pc st t (TDone (OPanic PLimit64))) t (TDone (OPanic PLimit64)) Ht
                    eq_refl eq_refl eq_refl) as Hp.
      rewrite E in Hp. cbn [failed_here] in Hp. rewrite Hb, N.eqb_refl in Hp.
      exists B. split.
      * right. split; [reflexivity|]. split.
        -- sstate. rewrite (inv_lock _ HI t) by (rewrite E; reflexivity). discriminate.
        -- intros t'. rewrite get_set by auto. destruct (Nat.eq_dec t t'); [reflexivity|].
           destruct (holds (get_pc st t')) eqn:Eh; [|reflexivity].
           exfalso. apply n. symmetry. apply (inv_lock_unique st t t' HI); [rewrite E; reflexivity|exact Eh].
      * change (off (set_pc st t _)) with (off st). specialize (Hsz sz eq_refl). lia.
    + destruct Hab as (Hlen & Hk1 & Hsame).
      apply (koff_update st _ t (TGrown sz b) HK Ht); try reflexivity; [| intros Hx; destruct (Hno Hx)|].
      * sstate. unfold chunk_len. rewrite Hsame; [reflexivity|left; lia].
      * left. rewrite E. cbn [failed_here]. change (off (set_pc (set_chunks st cs) t _)) with (off st). lia.
  - (* Grown: the Store starts a new epoch at offset 0 *)
    destruct Hk as (_ & Hb & Hb1). destruct (store_next b Hb1) as (Ec & Ep).
    inversion H; subst st'; clear H. exists 0. split; [left; reflexivity|].
    unfold off at 1; sstate. rewrite Ep. lia.
  - (* Unlocking *)
    assert (Hno : orphaned st -> False).
    { intros (_ & Hx). specialize (Hx t). rewrite E in Hx. discriminate. }
    inversion H; subst st'; clear H.
    apply (koff_update st _ t (TReq sz) HK Ht); try reflexivity; [intros Hx; destruct (Hno Hx)|].
    left. rewrite E. cbn [failed_here]. change (off (set_pc (set_lock st None) t _)) with (off st). lia.
Qed.

Lemma K_start st t sz : K st -> (t < length (threads st))%nat -> pc_returned (get_pc st t) = true -> sz <= B ->
  K (set_pc st t (start_pc sz)).
Proof.
  intros HK Ht Hr Hsz. pose proof (k_inv _ HK) as HI.
  assert (Hh : holds (start_pc sz) = false).
  { unfold start_pc. destruct (max_alloc <? sz); [reflexivity|]. destruct (sz =? 0); reflexivity. }
  assert (Hf : failed_here st (start_pc sz) = 0).
  { unfold start_pc. destruct (max_alloc <? sz); [reflexivity|]. destruct (sz =? 0); reflexivity. }
  constructor.
  - now apply inv_start.
  - apply (k_cb _ HK).
  - intros t' sz' E. rewrite get_set in E by auto. destruct (Nat.eq_dec t t'); [|apply (k_sz _ HK t' sz' E)].
    unfold start_pc in E. destruct (max_alloc <? sz); [discriminate|]. destruct (sz =? 0); [discriminate|].
    inversion E; subst; auto.
  - apply (koff_update st _ t (start_pc sz) HK Ht); try reflexivity.
    + apply orphaned_update with (t := t) (p' := start_pc sz); auto.
    + left. rewrite Hf. change (off (set_pc st t (start_pc sz))) with (off st).
      destruct (get_pc st t); cbn in Hr; try discriminate; cbn [failed_here]; lia.
Qed.

Lemma K_reset st : K st -> a_quiescent st = true -> K (set_handed (set_comp st 0) []).
Proof.
  intros HK Hq. constructor.
  - apply inv_reset; [apply (k_inv _ HK)|exact Hq].
  - apply (k_cb _ HK).
  - apply (k_sz _ HK).
  - exists 0. split; [left; reflexivity|]. change (off (set_handed (set_comp st 0) [])) with 0. lia.
Qed.

Lemma K_trim st max : K st -> a_quiescent st = true -> K (set_chunks st (trim_loop (chunks st) 0 max)).
Proof.
  intros HK Hq. constructor.
  - apply inv_trim; [apply (k_inv _ HK)|exact Hq].
  - sstate. apply trim_loop_bound. apply (k_cb _ HK).
  - apply (k_sz _ HK).
  - destruct (k_off _ HK) as (o & Ho & Hle). rewrite (pend_quiescent st Hq) in Hle.
    exists o. split; [destruct Ho as [->|(-> & Hx)]; auto|].
    change (off (set_chunks st (trim_loop (chunks st) 0 max))) with (off st). lia.
Qed.

Definition start_le (c : achoice) : Prop := match c with AcStart _ sz => sz <= B | _ => True end.

Lemma K_agstep st c st' : K st -> agstep st c = Some st' -> start_le c -> nocarry_step st c -> K st'.
Proof.
  intros HK H Hc Hnc. destruct c as [t sz|t| |max]; cbn [agstep astep] in H.
  - destruct (Nat.ltb_spec t (length (threads st))); [|discriminate]. cbn [andb] in H.
    destruct (pc_returned (get_pc st t)) eqn:Hr; [|discriminate]. inversion H; subst st'. now apply K_start.
  - eapply K_thread_step; eauto.
  - destruct (a_quiescent st) eqn:Hq; [|discriminate]. inversion H; subst st'. now apply K_reset.
  - destruct (a_quiescent st) eqn:Hq; [|discriminate]. inversion H; subst st'. now apply K_trim.
Qed.

Lemma agstep_length st c st' : agstep st c = Some st' -> length (threads st') = length (threads st).
Proof.
  intros H. destruct c as [t sz|t| |max]; cbn [agstep astep] in H.
  - destruct ((t <? length (threads st))%nat && pc_returned (get_pc st t)); inversion H; subst. apply length_set_pc.
  - unfold thread_step in H.
    destruct (get_pc st t); try discriminate;
      repeat match type of H with
             | (if ?c then _ else _) = _ => destruct c
             | match add_buffer_at ?a ?b ?c with _ => _ end = _ => destruct (add_buffer_at a b c)
             end; try discriminate; inversion H; subst st'; rewrite length_set_pc; reflexivity.
  - destruct (a_quiescent st); inversion H; subst. reflexivity.
  - destruct (a_quiescent st); inversion H; subst. reflexivity.
Qed.

Lemma static_run sched : forall st, K st -> (N.of_nat (length (threads st)) + 2) * B < 2 * max_alloc ->
  Forall start_le sched -> nocarry_run st sched.
Proof.
  induction sched as [|c rest IH]; intros st HK HB Hs; cbn [nocarry_run]; auto.
  inversion Hs; subst. destruct (agstep st c) as [st'|] eqn:E; [|apply IH; auto].
  pose proof (K_nocarry st c HK HB) as Hnc. split; [exact Hnc|].
  apply IH; auto.
  - eapply K_agstep; eauto.
  - now rewrite (agstep_length _ _ _ E).
Qed.

Lemma new_chunk_bound n sz : sz <= max_alloc -> chunk_bound (chunks (alloc_new n sz)).
Proof. intros Hs. apply (sx_cb _ (proj1 (seqq_new sz Hs))). Qed.

Lemma K_new n sz : sz <= max_alloc -> K (alloc_new n sz).
Proof.
  intros Hs. constructor.
  - apply inv_new.
  - now apply new_chunk_bound.
  - intros t sz' E. unfold get_pc, alloc_new in E; sstate. rewrite nth_repeat_idle in E. discriminate.
  - exists 0. split; [left; reflexivity|]. change (off (alloc_new n sz)) with 0. lia.
Qed.
End StaticRegime.

(* T goroutines, every request at most B bytes, (T+2)*B < 2 GiB, initial size at most 1 GiB: every schedule is in the
   no-carry regime *)
Theorem static_nocarry T B sz0 sched :
  sz0 <= max_alloc -> (N.of_nat T + 2) * B < 2 * max_alloc -> Forall (start_le B) sched ->
  nocarry_run (alloc_new T sz0) sched.
Proof.
  intros Hs HB Hf. apply (static_run B); auto.
  - now apply K_new.
  - unfold alloc_new; sstate. now rewrite repeat_length.
Qed.

Theorem disjoint_static T B sz0 sched :
  sz0 <= max_alloc -> (N.of_nat T + 2) * B < 2 * max_alloc -> Forall (start_le B) sched ->
  let st := agrun (alloc_new T sz0) sched in
  ForallOrdPairs gdisj (handed st) /\
  Forall (in_chunk st) (handed st) /\
  (forall t g, grant_of (get_pc st t) = Some g -> Forall (gdisj g) (handed st)) /\
  (forall t1 t2 g1 g2, t1 <> t2 -> grant_of (get_pc st t1) = Some g1 -> grant_of (get_pc st t2) = Some g2 ->
     gdisj g1 g2) /\
  (forall t e, get_pc st t = TDone (OPanic e) -> e = PTooBig \/ e = PLimit64) /\
  cidx (compIdx st) < 64 /\ length (chunks st) = nbuf.
Proof. intros Hs HB Hf. apply disjoint_all_schedules. now apply (static_nocarry T B). Qed.

(* ------------------------------------------------------------------------------------------------ *)
(* single goroutine: every call returns (no hang), in at most 7 actions per chunk                     *)
(* ------------------------------------------------------------------------------------------------ *)
Definition pc_rank (p : apc) : nat :=
  match p with
  | TReq _ => 6 | TAdded _ _ => 5 | TWantLock _ _ => 4 | TLocked _ _ => 3 | TGrow _ _ => 2
  | TGrown _ _ => 1 | TFits _ _ _ => 1 | TUnlocking _ => 7 | _ => 0
  end%nat.
Definition rank (st : astate) : nat := (8 * (64 - N.to_nat (cur st)) + pc_rank (get_pc st 0))%nat.

Definition is_done (p : apc) : Prop := exists o, p = TDone o.

Lemma seq_rank_step st : SeqX st -> pc_returned (get_pc st 0) = false ->
  exists st', thread_step st 0 = Some st' /\ (is_done (get_pc st' 0) \/ (rank st' < rank st)%nat).
Proof.
  intros HX Hr.
  pose proof (sx_inv _ HX) as HI. pose proof (sx_one _ HX) as H1.
  pose proof (sx_pc _ HX) as Hp. pose proof (inv_pcs _ HI 0%nat) as Hk. pose proof (inv_cur _ HI) as Hcur.
  assert (H0 : (0 < length (threads st))%nat) by lia.
  unfold thread_step, rank. destruct (get_pc st 0) eqn:E; try discriminate; cbn [seq_pc pc_ok] in Hp, Hk.
  - (* TReq *)
    pose proof (seqx_nocarry st sz HX E) as Hnc.
    destruct (faa_nocarry (compIdx st) sz Hcur Hnc) as (Ea & Ec & Ep).
    eexists; split; [reflexivity|]. right. rewrite get_set_same by (sstate; auto).
    unfold cur; sstate. rewrite Ea, Ec. cbn [pc_rank]. lia.
  - (* TAdded *)
    destruct Hp as (-> & _ & _). rewrite (lenN_chunks _ HI).
    destruct (N.leb_spec 64 (cidx (compIdx st))); [unfold cur in Hcur; lia|].
    destruct (chunk_len (chunks st) (cidx (compIdx st)) <? cpos (compIdx st));
      (eexists; split; [reflexivity|]); right; rewrite get_set_same by auto; cbn [pc_rank];
      change (cur (set_pc st 0 _)) with (cur st); lia.
  - (* TFits *)
    destruct (p <? sz); (eexists; split; [reflexivity|]); left; rewrite get_set_same by (sstate; auto); eexists; reflexivity.
  - (* TWantLock *)
    destruct Hp as (_ & HL). rewrite HL. eexists; split; [reflexivity|]. right.
    rewrite get_set_same by (sstate; auto). cbn [pc_rank]. change (cur (set_pc (set_lock st (Some 0%nat)) 0 _)) with (cur st). lia.
  - (* TLocked *)
    subst b. unfold cur. rewrite N.eqb_refl. eexists; split; [reflexivity|]. right. rewrite get_set_same by auto.
    cbn [pc_rank]. change (cidx (compIdx (set_pc st 0 _))) with (cidx (compIdx st)). lia.
  - (* TGrow *)
    destruct Hk as (Hs & _).
    pose proof (add_buffer_at_spec (chunks st) (b + 1) sz (inv_len _ HI) (proj2 Hs)) as Hab.
    destruct (add_buffer_at (chunks st) (b + 1) sz) as [| |cs]; [|contradiction|]; (eexists; split; [reflexivity|]).
    + left. rewrite get_set_same by auto. eexists; reflexivity.
    + right. rewrite get_set_same by (sstate; auto). cbn [pc_rank]. change (cur (set_pc (set_chunks st cs) 0 _)) with (cur st). lia.
  - (* TGrown *)
    destruct Hk as (_ & Hb & Hb1). destruct (store_next b Hb1) as (Ec & Ep).
    eexists; split; [reflexivity|]. right. rewrite get_set_same by (sstate; auto). cbn [pc_rank].
    unfold cur in *; sstate. rewrite Ec. lia.
  - (* TUnlocking: the Store has already moved to the next chunk; the retry starts with rank 6 there *)
    eexists; split; [reflexivity|]. right. rewrite get_set_same by (sstate; auto). cbn [pc_rank].
    change (cur (set_pc (set_lock st None) 0 _)) with (cur st). lia.
Qed.

Lemma run_thread_mono f : forall st t st' o f', run_thread f st t = (st', Some o) -> (f <= f')%nat ->
  run_thread f' st t = (st', Some o).
Proof.
  induction f as [|f IH]; intros st t st' o f' H Hle; destruct (pc_done_dec (get_pc st t)) as [(o' & E)|E].
  - rewrite (run_thread_done 0 _ _ _ E) in H. rewrite (run_thread_done f' _ _ _ E). exact H.
  - rewrite run_thread_zero in H by auto. discriminate.
  - rewrite (run_thread_done (S f) _ _ _ E) in H. rewrite (run_thread_done f' _ _ _ E). exact H.
  - destruct f' as [|f']; [lia|]. rewrite run_thread_unfold in * by auto.
    destruct (thread_step st t); [|discriminate]. apply IH; [exact H|lia].
Qed.

Lemma seq_run_progress fuel : forall st, SeqX st -> get_pc st 0 <> TIdle -> (rank st < fuel)%nat ->
  exists st' o, run_thread fuel st 0 = (st', Some o).
Proof.
  induction fuel as [|f IH]; intros st HX Hni Hr; [lia|].
  destruct (pc_done_dec (get_pc st 0)) as [(o' & E)|E].
  - rewrite (run_thread_done _ _ _ _ E). eauto.
  - rewrite run_thread_unfold by auto.
    assert (Hret : pc_returned (get_pc st 0) = false).
    { destruct (get_pc st 0) eqn:E0; try reflexivity; [congruence|exfalso; eapply E; eauto]. }
    destruct (seq_rank_step st HX Hret) as (st1 & Es & Hd). rewrite Es.
    destruct (seqx_step st st1 HX Es) as (HX1 & _).
    destruct Hd as [(o1 & E1)|Hlt].
    + rewrite (run_thread_done _ _ _ _ E1). eauto.
    + apply IH; auto; [|lia].
      (* a step never goes back to Idle *)
      unfold thread_step in Es. intros Ei.
      destruct (get_pc st 0); try discriminate;
        repeat match type of Es with
               | (if ?c then _ else _) = _ => destruct c
               | match add_buffer_at ?a ?b ?c with _ => _ end = _ => destruct (add_buffer_at a b c)
               end; try discriminate; inversion Es; subst st1;
        rewrite get_set_same in Ei by (sstate; rewrite (sx_one _ HX); lia); discriminate.
Qed.

(* a call of a single goroutine always returns: with a range, nil, or one of the two documented panics *)
Theorem seq_progress st sz : SeqQ st -> exists st' o, alloc_seq st 0 sz = (st', Some o).
Proof.
  intros HQ. rewrite (alloc_seq_unfold st sz HQ). pose proof (seqq_start st sz HQ) as HX.
  apply seq_run_progress; auto.
  - destruct HQ as (HX0 & _). rewrite get_set_same by (rewrite (sx_one _ HX0); lia).
    unfold start_pc. destruct (max_alloc <? sz); [discriminate|]. destruct (sz =? 0); discriminate.
  - unfold rank, seq_fuel. pose proof (inv_cur _ (sx_inv _ HX)).
    assert (pc_rank (get_pc (set_pc st 0 (start_pc sz)) 0) <= 7)%nat by (destruct (get_pc _ 0); cbn; lia).
    lia.
Qed.


Theorem seq_progress_good st sz : SeqQ st ->
  exists st' o, alloc_seq st 0 sz = (st', Some o) /\ (good (Some o) \/ o = OPanic PLimit64).
Proof.
  intros HQ. destruct (seq_progress st sz HQ) as (st' & o & H). exists st', o. split; [exact H|].
  rewrite (alloc_seq_unfold st sz HQ) in H.
  destruct (run_thread_future _ _ _ _ (seqq_start st sz HQ) H) as (HX' & _).
  pose proof (run_thread_result _ _ _ _ _ H) as E.
  pose proof (inv_pcs _ (sx_inv _ HX') 0%nat) as Hp. rewrite E in Hp.
  destruct o as [| |e]; cbn [good pc_ok] in *; auto. destruct Hp as [->| ->]; auto.
Qed.
