(* Model of z/allocator.go (C12) as a multi-threaded step machine.  Definitions only.

   The allocator packs (chunk index, offset) into one uint64 `compIdx` (chunk in the 32 MSBs, offset in the 32
   LSBs) that every goroutine advances with one atomic.AddUint64; `buffers` is a fixed array of 64 chunk slots.
   A chunk is represented by its length only (`None` = nil slot: never allocated or released by TrimTo); a slice
   handed out is the triple (chunk index, offset in the chunk, length).

   One `AcStep t` is ONE atomic action of goroutine t in Allocate:
     TReq      pos := atomic.AddUint64(&a.compIdx, sz)                                  -> TAdded
     TAdded    buf := a.buffers[bufIdx]; if posIdx > len(buf)                            -> TWantLock | TFits
     TFits     data := buf[posIdx-sz : posIdx]; return                                   -> TDone
     TWantLock a.Lock()  (enabled only while the mutex is free)                          -> TLocked
     TLocked   newPos := atomic.LoadUint64(&a.compIdx); newBufIdx != bufIdx ?            -> TUnlocking | TGrow
     TGrow     a.addBufferAt(bufIdx+1, sz)   (whole function, runs under the mutex)      -> TGrown | TDone(panic)
     TGrown    atomic.StoreUint64(&a.compIdx, uint64((bufIdx+1)<<32))                    -> TUnlocking
     TUnlocking  a.Unlock(); continue                                                    -> TReq
   Arithmetic on compIdx is mod 2^64 exactly as the code's; nothing stops the offset half from carrying into the
   chunk half (finding "carry"): the theorems state the no-carry regime explicitly.
   (Names carry a prefix -- astate, apc, astep, AcStep, TReq ... -- because all models are extracted into one
   OCaml module.)  `handed` is a ghost log (never read by a step): the ranges returned since the last Reset. *)
From Ristretto Require Import Base.Word.
Open Scope N_scope.

Definition max_alloc : N := 1073741824.          (* maxAlloc = 1 << 30 *)
Definition nbuf : nat := 64.                     (* len(a.buffers) *)

Definition pack (chunk off : N) : N := chunk * two32 + off.
Definition cidx (w : N) : N := w / two32.        (* int(pos >> 32) *)
Definition cpos (w : N) : N := w mod two32.      (* int(pos & 0xFFFFFFFF) *)

Inductive apanic :=
| PTooBig                      (* "Unable to allocate more than 1073741824" *)
| PLimit64                     (* "Allocator can not allocate more than 64 buffers" (raised with the mutex held) *)
| PIndex (i : N)               (* a.buffers[i] with i >= 64 *)
| PSlice (p sz : N)            (* buf[p-sz : p] with p < sz: slice bounds out of range *)
| PHang.                       (* a loop of the code does not terminate (fuel exhausted); not reachable in the repaired code *)

Inductive aoutcome :=
| ONil                         (* Allocate(0) returns nil *)
| ORange (c off len : N)
| OPanic (p : apanic).

Inductive apc :=
| TIdle
| TReq (sz : N)
| TAdded (sz pos : N)
| TFits (sz b p : N)
| TWantLock (sz b : N)
| TLocked (sz b : N)
| TGrow (sz b : N)
| TGrown (sz b : N)
| TUnlocking (sz : N)
| TDone (o : aoutcome).

Record astate := mkAState {
  compIdx : N;
  chunks : list (option N);
  lock : option nat;
  threads : list apc;
  handed : list (N * N * N)    (* ghost: (chunk, offset, length) returned since the last Reset *)
}.

Definition chunk_len (cs : list (option N)) (i : N) : N :=
  match nthN cs i None with Some l => l | None => 0 end.

(* ---- addBufferAt(bufIdx, minSz) ---- *)
Inductive ab_find_res := ABLimit | ABEnough | ABSlot (i : N) | ABFuel.

(* the first loop: walk up from bufIdx until an empty slot, a big enough chunk, or the end of the array *)
Fixpoint ab_find (fuel : nat) (cs : list (option N)) (i minSz : N) : ab_find_res :=
  match fuel with
  | O => ABFuel
  | S f =>
      if lenN cs <=? i then ABLimit
      else if chunk_len cs i =? 0 then ABSlot i
      else if minSz <=? chunk_len cs i then ABEnough
      else ab_find f cs (i + 1) minSz
  end.

(* for pageSize < minSz { pageSize *= 2 } *)
Fixpoint grow_loop (fuel : nat) (page minSz : N) : option N :=
  if page <? minSz then
    match fuel with
    | O => None
    | S f => grow_loop f (page * 2) minSz
    end
  else Some page.

(* the repaired code (commit 4454866): start from 512 when the previous slot is empty *)
Definition page_size (prev minSz : N) : option N :=
  let p0 := 2 * prev in
  let p1 := if p0 =? 0 then 512 else p0 in
  match grow_loop 64 p1 minSz with
  | None => None
  | Some p => Some (if max_alloc <? p then max_alloc else p)
  end.
(* the code before the repair, kept for C12_trim_prefix_refuted *)
Definition page_size_prefix (fuel : nat) (prev minSz : N) : option N :=
  match grow_loop fuel (2 * prev) minSz with
  | None => None
  | Some p => Some (if max_alloc <? p then max_alloc else p)
  end.

Inductive ab_res := ABPanic | ABHang | ABOk (cs : list (option N)).
Definition add_buffer_at (cs : list (option N)) (bufIdx minSz : N) : ab_res :=
  match ab_find 65 cs bufIdx minSz with
  | ABLimit => ABPanic
  | ABFuel => ABHang
  | ABEnough => ABOk cs
  | ABSlot j =>
      match page_size (chunk_len cs (j - 1)) minSz with
      | None => ABHang
      | Some p => ABOk (updN cs j (Some p))
      end
  end.

(* ---- TrimTo(max): frees every chunk at which the running total reaches max; stops at the first empty slot ---- *)
Fixpoint trim_loop (cs : list (option N)) (alloc max : N) : list (option N) :=
  match cs with
  | [] => []
  | c :: r =>
      match c with
      | None => cs
      | Some l =>
          if l =? 0 then cs
          else if alloc + l <? max then c :: trim_loop r (alloc + l) max
          else None :: trim_loop r (alloc + l) max
      end
  end.

(* ---- NewAllocator(sz) ---- *)
Definition log2_floor (sz : N) : N := N.log2 sz.
Definition first_chunk (sz : N) : N :=
  let sz := if sz <? 512 then 512 else sz in
  let l2 := log2_floor sz in
  if 2 ^ l2 =? sz then 2 ^ l2 else 2 ^ (l2 + 1).

Definition alloc_new (nthreads : nat) (sz : N) : astate :=
  {| compIdx := 0; chunks := Some (first_chunk sz) :: repeat None (nbuf - 1); lock := None;
     threads := repeat TIdle nthreads; handed := [] |}.

(* ---- the step machine ---- *)
Inductive achoice :=
| AcStart (t : nat) (sz : N)    (* goroutine t (idle, or back from its previous call) calls Allocate(sz) *)
| AcStep (t : nat)              (* goroutine t performs its next atomic action *)
| AcReset                       (* a.Reset() *)
| AcTrim (max : N).             (* a.TrimTo(max) *)

Definition get_pc (st : astate) (t : nat) : apc := nth t (threads st) TIdle.
Definition set_pc (st : astate) (t : nat) (p : apc) : astate :=
  {| compIdx := compIdx st; chunks := chunks st; lock := lock st; threads := upd (threads st) t p;
     handed := handed st |}.
Definition set_comp (st : astate) (w : N) : astate :=
  {| compIdx := w; chunks := chunks st; lock := lock st; threads := threads st; handed := handed st |}.
Definition set_chunks (st : astate) (cs : list (option N)) : astate :=
  {| compIdx := compIdx st; chunks := cs; lock := lock st; threads := threads st; handed := handed st |}.
Definition set_lock (st : astate) (l : option nat) : astate :=
  {| compIdx := compIdx st; chunks := chunks st; lock := l; threads := threads st; handed := handed st |}.
Definition set_handed (st : astate) (h : list (N * N * N)) : astate :=
  {| compIdx := compIdx st; chunks := chunks st; lock := lock st; threads := threads st; handed := h |}.

Definition pc_returned (p : apc) : bool :=
  match p with TIdle | TDone _ => true | _ => false end.
(* no call is in flight *)
Definition a_quiescent (st : astate) : bool := forallb pc_returned (threads st).

Definition start_pc (sz : N) : apc :=
  if max_alloc <? sz then TDone (OPanic PTooBig)
  else if sz =? 0 then TDone ONil
  else TReq sz.

Definition thread_step (st : astate) (t : nat) : option astate :=
  match get_pc st t with
  | TIdle | TDone _ => None
  | TReq sz =>
      let pos := add64 (compIdx st) sz in
      Some (set_pc (set_comp st pos) t (TAdded sz pos))
  | TAdded sz pos =>
      let b := cidx pos in
      let p := cpos pos in
      if lenN (chunks st) <=? b then Some (set_pc st t (TDone (OPanic (PIndex b))))
      else if chunk_len (chunks st) b <? p then Some (set_pc st t (TWantLock sz b))
      else Some (set_pc st t (TFits sz b p))
  | TFits sz b p =>
      if p <? sz then Some (set_pc st t (TDone (OPanic (PSlice p sz))))
      else Some (set_pc (set_handed st ((b, p - sz, sz) :: handed st)) t (TDone (ORange b (p - sz) sz)))
  | TWantLock sz b =>
      match lock st with
      | Some _ => None
      | None => Some (set_pc (set_lock st (Some t)) t (TLocked sz b))
      end
  | TLocked sz b =>
      if cidx (compIdx st) =? b then Some (set_pc st t (TGrow sz b))
      else Some (set_pc st t (TUnlocking sz))
  | TGrow sz b =>
      match add_buffer_at (chunks st) (b + 1) sz with
      | ABPanic => Some (set_pc st t (TDone (OPanic PLimit64)))      (* the mutex stays locked *)
      | ABHang => Some (set_pc st t (TDone (OPanic PHang)))
      | ABOk cs => Some (set_pc (set_chunks st cs) t (TGrown sz b))
      end
  | TGrown sz b =>
      Some (set_pc (set_comp st (u64 ((b + 1) * two32))) t (TUnlocking sz))
  | TUnlocking sz =>
      Some (set_pc (set_lock st None) t (TReq sz))
  end.

(* the code as it is: Reset and TrimTo do not look at anything *)
Definition astep (st : astate) (c : achoice) : option astate :=
  match c with
  | AcStart t sz =>
      if (t <? length (threads st))%nat && pc_returned (get_pc st t) then Some (set_pc st t (start_pc sz))
      else None
  | AcStep t => thread_step st t
  | AcReset => Some (set_handed (set_comp st 0) [])
  | AcTrim max => Some (set_chunks st (trim_loop (chunks st) 0 max))
  end.

(* the documented usage: Reset / TrimTo are called while no Allocate is in flight *)
Definition agstep (st : astate) (c : achoice) : option astate :=
  match c with
  | AcReset | AcTrim _ => if a_quiescent st then astep st c else None
  | _ => astep st c
  end.

Fixpoint run_with (stp : astate -> achoice -> option astate) (st : astate) (sched : list achoice) : astate :=
  match sched with
  | [] => st
  | c :: rest => run_with stp (match stp st c with Some st' => st' | None => st end) rest
  end.
Definition arun := run_with astep.
Definition agrun := run_with agstep.

(* The no-carry regime of a run: every fetch-and-add that is executed leaves the offset half below 2^32. *)
Definition nocarry_step (st : astate) (c : achoice) : Prop :=
  match c with
  | AcStep t => match get_pc st t with TReq sz => cpos (compIdx st) + sz < two32 | _ => True end
  | _ => True
  end.
Fixpoint nocarry_run (st : astate) (sched : list achoice) : Prop :=
  match sched with
  | [] => True
  | c :: rest =>
      match agstep st c with
      | None => nocarry_run st rest
      | Some st' => nocarry_step st c /\ nocarry_run st' rest
      end
  end.

(* ---- observers ---- *)
Fixpoint sum_first (n : nat) (cs : list (option N)) : N :=
  match n, cs with
  | S n', c :: r => (match c with Some l => l | None => 0 end) + sum_first n' r
  | _, _ => 0
  end.
(* Size(): None = panic("Size should not reach here") *)
Definition a_size (st : astate) : option N :=
  let bi := cidx (compIdx st) in
  if bi <? lenN (chunks st) then Some (sum_first (N.to_nat bi) (chunks st) + cpos (compIdx st)) else None.
Definition a_allocated (st : astate) : N := sum_first (length (chunks st)) (chunks st).

(* ---- one goroutine's call run to completion (single-threaded correspondence) ---- *)
Fixpoint run_thread (fuel : nat) (st : astate) (t : nat) : astate * option aoutcome :=
  match get_pc st t with
  | TDone o => (st, Some o)
  | _ =>
      match fuel with
      | O => (st, None)
      | S f =>
          match thread_step st t with
          | None => (st, None)                  (* blocked on the mutex forever: the call hangs *)
          | Some st' => run_thread f st' t
          end
      end
  end.
Definition seq_fuel : nat := 1000.
Definition alloc_seq (st : astate) (t : nat) (sz : N) : astate * option aoutcome :=
  match astep st (AcStart t sz) with
  | None => (st, None)
  | Some st' => run_thread seq_fuel st' t
  end.
Fixpoint alloc_list (st : astate) (t : nat) (szs : list N) : astate * list (option aoutcome) :=
  match szs with
  | [] => (st, [])
  | sz :: r =>
      let '(st', o) := alloc_seq st t sz in
      let '(st'', os) := alloc_list st' t r in
      (st'', o :: os)
  end.
Definition a_reset (st : astate) : astate :=
  match astep st AcReset with Some st' => st' | None => st end.
Definition a_trim_to (st : astate) (max : N) : astate :=
  match astep st (AcTrim max) with Some st' => st' | None => st end.

(* ---- AllocateAligned / Copy on top of Allocate; memory contents ---- *)
Definition amemory := N -> N -> N.               (* chunk -> offset -> byte *)
Definition mem_write (m : amemory) (c off : N) (bs : list N) : amemory :=
  fun c' o => if (c' =? c) && (off <=? o) && (o <? off + lenN bs) then nthN bs (o - off) 0 else m c' o.
Definition mem_zero (m : amemory) (c off len : N) : amemory :=
  fun c' o => if (c' =? c) && (off <=? o) && (o <? off + len) then 0 else m c' o.
Definition mem_read (m : amemory) (c off len : N) : list N := map (fun i => m c (off + i)) (seqN len).

(* start := ((addr + 7) & ^7) - addr for addr = base + off, where base is the address of the chunk's first byte *)
Definition align_pad (base off : N) : N := (base + off + 7) / 8 * 8 - (base + off).
(* AllocateAligned(sz): Allocate(sz+7), ZeroOut all of it, return out[start : start+sz].
   bases: address of each chunk (Calloc returns memory aligned to 8 or more; the theorems hold for every base). *)
Definition aligned_of (bases : N -> N) (m : amemory) (o : aoutcome) (sz : N) : aoutcome * amemory :=
  match o with
  | ORange c off len =>
      let pad := align_pad (bases c) off in
      (ORange c (off + pad) sz, mem_zero m c off len)
  | _ => (o, m)
  end.
Definition aligned_seq (bases : N -> N) (st : astate) (m : amemory) (t : nat) (sz : N)
  : astate * amemory * option aoutcome :=
  match alloc_seq st t (sz + 7) with
  | (st', Some o) => let '(o', m') := aligned_of bases m o sz in (st', m', Some o')
  | (st', None) => (st', m, None)
  end.
Definition copy_seq (st : astate) (m : amemory) (t : nat) (bs : list N) : astate * amemory * option aoutcome :=
  match alloc_seq st t (lenN bs) with
  | (st', Some (ORange c off len)) => (st', mem_write m c off bs, Some (ORange c off len))
  | (st', o) => (st', m, o)
  end.
