(* XXH64 with seed 0, as computed by github.com/cespare/xxhash/v2 Sum64 / Sum64String (the conflict hash of string and
   []byte keys in z.KeyToHash).  Bytes are N < 256; all arithmetic is mod 2^64, written out. *)
From Coq Require Import List NArith Lia.
From Ristretto Require Import Base.Word.
Import ListNotations.
Local Open Scope N_scope.

Definition xp1 : N := 11400714785074694791.
Definition xp2 : N := 14029467366897019727.
Definition xp3 : N := 1609587929392839161.
Definition xp4 : N := 9650029242287828579.
Definition xp5 : N := 2870177450012600261.

Definition rotl64 (x r : N) : N := N.lor (shl64 x r) (shr64 (u64 x) (64 - r)).

(* little-endian load of the first [n] bytes *)
Fixpoint le_load (n : nat) (b : list N) : N :=
  match n, b with
  | S n', x :: b' => u8 x + 256 * le_load n' b'
  | _, _ => 0
  end.

Definition xround (acc input : N) : N := mul64 (rotl64 (add64 acc (mul64 input xp2)) 31) xp1.
Definition xmerge (acc val : N) : N := add64 (mul64 (N.lxor acc (xround 0 val)) xp1) xp4.

Fixpoint xstripes (fuel : nat) (b : list N) (v1 v2 v3 v4 : N) : N * N * N * N * list N :=
  match fuel with
  | O => (v1, v2, v3, v4, b)
  | S f =>
      if (32 <=? length b)%nat then
        xstripes f (skipn 32 b)
                 (xround v1 (le_load 8 b)) (xround v2 (le_load 8 (skipn 8 b)))
                 (xround v3 (le_load 8 (skipn 16 b))) (xround v4 (le_load 8 (skipn 24 b)))
      else (v1, v2, v3, v4, b)
  end.

Fixpoint xwords (fuel : nat) (b : list N) (h : N) : N * list N :=
  match fuel with
  | O => (h, b)
  | S f =>
      if (8 <=? length b)%nat then
        xwords f (skipn 8 b) (add64 (mul64 (rotl64 (N.lxor h (xround 0 (le_load 8 b))) 27) xp1) xp4)
      else (h, b)
  end.

Fixpoint xbytes (b : list N) (h : N) : N :=
  match b with
  | [] => h
  | x :: b' => xbytes b' (mul64 (rotl64 (N.lxor h (mul64 (u8 x) xp5)) 11) xp1)
  end.

Definition xavalanche (h : N) : N :=
  let h := N.lxor h (shr64 h 33) in
  let h := mul64 h xp2 in
  let h := N.lxor h (shr64 h 29) in
  let h := mul64 h xp3 in
  N.lxor h (shr64 h 32).

Definition xxh64 (b : list N) : N :=
  let n := length b in
  let '(h, rest) :=
    if (32 <=? n)%nat then
      let '(v1, v2, v3, v4, rest) := xstripes n b (add64 xp1 xp2) xp2 0 (sub64 0 xp1) in
      let h := add64 (add64 (rotl64 v1 1) (rotl64 v2 7)) (add64 (rotl64 v3 12) (rotl64 v4 18)) in
      (xmerge (xmerge (xmerge (xmerge h v1) v2) v3) v4, rest)
    else (xp5, b) in
  let h := add64 h (N.of_nat n) in
  let '(h, rest) := xwords n rest h in
  let '(h, rest) :=
    if (4 <=? length rest)%nat then
      (add64 (mul64 (rotl64 (N.lxor h (mul64 (le_load 4 rest) xp1)) 23) xp2) xp3, skipn 4 rest)
    else (h, rest) in
  xavalanche (xbytes rest h).

(* published test vectors of XXH64, seed 0 *)
Example xxh64_empty : xxh64 [] = 17241709254077376921.        (* 0xef46db3751d8e999 *)
Proof. vm_compute. reflexivity. Qed.
Example xxh64_a : xxh64 [97] = 15154266338359012955.           (* 0xd24ec4f1a98c6e5b *)
Proof. vm_compute. reflexivity. Qed.
Example xxh64_abc : xxh64 [97; 98; 99] = 4952883123889572249.  (* 0x44bc2cf5ad770999 *)
Proof. vm_compute. reflexivity. Qed.
