(* Bit-level and modular facts used by several components. *)
From Ristretto Require Import Base.Word.
From Coq Require Import ZifyN ZifyNat ZifyBool.
Open Scope N_scope.

Lemma land_le_r a b : N.land a b <= b.
Proof.
  apply N.ldiff_le. apply N.bits_inj. intros i.
  rewrite N.ldiff_spec, N.land_spec, N.bits_0.
  destruct (N.testbit a i), (N.testbit b i); reflexivity.
Qed.

Lemma land_le_l a b : N.land a b <= a.
Proof. rewrite N.land_comm. apply land_le_r. Qed.

Lemma u64_lt x : u64 x < two64.
Proof. unfold u64. apply N.mod_lt. discriminate. Qed.

Lemma u64_small x : x < two64 -> u64 x = x.
Proof. intros. unfold u64. apply N.mod_small; auto. Qed.

Lemma u8_lt x : u8 x < 256.
Proof. unfold u8, two8. apply N.mod_lt. discriminate. Qed.

Lemma testbit_lor_shiftl1 b j i :
  N.testbit (N.lor b (N.shiftl 1 j)) i = N.testbit b i || (i =? j).
Proof.
  rewrite N.lor_spec. f_equal.
  destruct (N.eqb_spec i j) as [->|Hne].
  - rewrite N.shiftl_spec_high' by lia. rewrite N.sub_diag. reflexivity.
  - destruct (N.lt_ge_cases i j).
    + apply N.shiftl_spec_low; auto.
    + rewrite N.shiftl_spec_high' by lia.
      replace (i - j) with (N.succ (i - j - 1)) by lia.
      rewrite N.bit0_odd || idtac.
      change 1 with (2 ^ 0). rewrite N.pow2_bits_false; auto. lia.
Qed.

Lemma land_shiftr_1 b j : (N.land (N.shiftr b j) 1 =? 1) = N.testbit b j.
Proof.
  change 1 with (N.ones 1) at 1. rewrite N.land_ones. change (2 ^ 1) with 2.
  rewrite <- N.bit0_mod. rewrite N.shiftr_spec by lia. rewrite N.add_0_l.
  destruct (N.testbit b j); reflexivity.
Qed.
