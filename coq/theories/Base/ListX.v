(* List lemmas for upd / nthN / seqN used across the development. *)
From Ristretto Require Import Base.Word.
From Coq Require Import ZifyN ZifyNat ZifyBool.
Open Scope nat_scope.

Lemma length_upd {A} (l : list A) i x : length (upd l i x) = length l.
Proof. revert i; induction l as [|a l IH]; intros [|i]; simpl; auto. Qed.

Lemma nth_upd_same {A} (l : list A) i x d : i < length l -> nth i (upd l i x) d = x.
Proof.
  revert i; induction l as [|a l IH]; intros [|i] H; simpl in *; try lia; auto.
  apply IH; lia.
Qed.

Lemma nth_upd_other {A} (l : list A) i j x d : i <> j -> nth j (upd l i x) d = nth j l d.
Proof.
  revert i j; induction l as [|a l IH]; intros [|i] [|j] H; simpl; auto; try congruence.
Qed.

Lemma upd_oob {A} (l : list A) i x : length l <= i -> upd l i x = l.
Proof.
  revert i; induction l as [|a l IH]; intros [|i] H; simpl in *; auto; try lia.
  f_equal; apply IH; lia.
Qed.

Lemma Forall_upd {A} (P : A -> Prop) l i x : Forall P l -> P x -> Forall P (upd l i x).
Proof.
  intros Hl Hx; revert i; induction Hl as [|a l Ha Hl IH]; intros [|i]; simpl; constructor; auto.
Qed.

Lemma Forall_nth_d {A} (P : A -> Prop) l i d : Forall P l -> P d -> P (nth i l d).
Proof.
  intros Hl Hd; revert i; induction Hl as [|a l Ha Hl IH]; intros [|i]; simpl; auto.
Qed.

Lemma nth_map_d {A B} (f : A -> B) l i d : nth i (map f l) (f d) = f (nth i l d).
Proof. apply map_nth. Qed.

Lemma upd_app_l {A} (l1 l2 : list A) i x : i < length l1 -> upd (l1 ++ l2) i x = upd l1 i x ++ l2.
Proof.
  revert i; induction l1 as [|a l1 IH]; intros [|i] H; simpl in *; try lia; auto.
  f_equal; apply IH; lia.
Qed.

Lemma in_seqN n x : In x (seqN n) <-> (x < n)%N.
Proof.
  unfold seqN; rewrite in_map_iff; split.
  - intros (k & <- & Hk); apply in_seq in Hk; lia.
  - intros H; exists (N.to_nat x); split; [apply N2Nat.id|apply in_seq; lia].
Qed.

Lemma length_seqN n : length (seqN n) = N.to_nat n.
Proof. unfold seqN; now rewrite map_length, seq_length. Qed.
