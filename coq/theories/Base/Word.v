(* Machine-word arithmetic on N / Z with the wrap-around written out.
   Model file: definitions only (proofs live in WordProofs.v). *)
From Coq Require Export NArith ZArith List Bool Lia.
Export ListNotations.
Open Scope N_scope.

Definition two8  : N := 256.
Definition two16 : N := 65536.
Definition two32 : N := 4294967296.
Definition two64 : N := 18446744073709551616.
Definition two63 : N := 9223372036854775808.

Definition u8  (x : N) : N := x mod two8.
Definition u32 (x : N) : N := x mod two32.
Definition u64 (x : N) : N := x mod two64.

Definition add64 (a b : N) : N := u64 (a + b).
Definition mul64 (a b : N) : N := u64 (a * b).
(* a - b on uint64 *)
Definition sub64 (a b : N) : N := u64 (a + two64 - u64 b).
Definition shl64 (a s : N) : N := u64 (N.shiftl a s).
Definition shr64 (a s : N) : N := N.shiftr a s.

(* int64 as Z *)
Definition ztwo64 : Z := 18446744073709551616%Z.
Definition ztwo63 : Z := 9223372036854775808%Z.
Definition wrap64 (x : Z) : Z :=
  let m := (x mod ztwo64)%Z in
  if (m <? ztwo63)%Z then m else (m - ztwo64)%Z.
(* uint64(x) for an int64 x *)
Definition z2u64 (x : Z) : N := Z.to_N (x mod ztwo64)%Z.

(* list helpers on N indices *)
Definition nthN {A} (l : list A) (i : N) (d : A) : A := nth (N.to_nat i) l d.

Fixpoint upd {A} (l : list A) (i : nat) (x : A) : list A :=
  match l, i with
  | [], _ => []
  | _ :: t, O => x :: t
  | h :: t, S i' => h :: upd t i' x
  end.
Definition updN {A} (l : list A) (i : N) (x : A) : list A := upd l (N.to_nat i) x.

Definition lenN {A} (l : list A) : N := N.of_nat (length l).

Definition seqN (n : N) : list N := map N.of_nat (seq 0 (N.to_nat n)).
