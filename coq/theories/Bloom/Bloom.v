(* Model of z/bbloom.go.  The bit set is the byte array the code addresses through unsafe pointers
   (word idx>>6, byte (idx%64)>>3 inside it, bit idx%8): on a little-endian machine that is byte
   8*(idx>>6) + ((idx%64)>>3) of the backing array.  Definitions only. *)
From Ristretto Require Import Base.Word.
Open Scope N_scope.

Record bloom := { bl_bits : list N; bl_sizeExp : N; bl_size : N; bl_locs : N; bl_shift : N }.

(* getSize: size doubles until >= ui64.  Fuel 65; None = the code's loop does not terminate
   (size wrapped to 0 for ui64 > 2^63). *)
Fixpoint get_size_loop (fuel : nat) (size exp ui64 : N) : option (N * N) :=
  if size <? ui64 then
    match fuel with
    | O => None
    | S f => get_size_loop f (shl64 size 1) (exp + 1) ui64
    end
  else Some (size, exp).
Definition get_size (ui64 : N) : option (N * N) :=
  get_size_loop 65 1 0 (if ui64 <? 512 then 512 else ui64).

(* NewBloomFilter(entries, locs) with locs >= 1 given as integers *)
Definition bloom_new (entries locs : N) : option bloom :=
  match get_size entries with
  | None => None
  | Some (size, exp) =>
      Some {| bl_bits := repeat 0 (N.to_nat (N.shiftr size 6 * 8));
              bl_sizeExp := exp; bl_size := size - 1; bl_locs := locs; bl_shift := 64 - exp |}
  end.

Definition byte_addr (idx : N) : N := 8 * N.shiftr idx 6 + N.shiftr (idx mod 64) 3.

Definition bits_set (bits : list N) (idx : N) : list N :=
  let a := byte_addr idx in updN bits a (N.lor (nthN bits a 0) (N.shiftl 1 (idx mod 8))).
Definition bits_isset (bits : list N) (idx : N) : bool :=
  N.land (N.shiftr (nthN bits (byte_addr idx) 0) (idx mod 8)) 1 =? 1.

Definition bl_h (b : bloom) (hash : N) : N := shr64 hash (bl_shift b).
Definition bl_l (b : bloom) (hash : N) : N := shr64 (shl64 hash (bl_shift b)) (bl_shift b).
Definition bl_pos (b : bloom) (hash i : N) : N :=
  N.land (add64 (bl_h b hash) (mul64 i (bl_l b hash))) (bl_size b).
Definition bl_positions (b : bloom) (hash : N) : list N :=
  map (bl_pos b hash) (seqN (bl_locs b)).

Definition with_bits (b : bloom) (bits : list N) : bloom :=
  {| bl_bits := bits; bl_sizeExp := bl_sizeExp b; bl_size := bl_size b;
     bl_locs := bl_locs b; bl_shift := bl_shift b |}.

Definition bl_add (b : bloom) (hash : N) : bloom :=
  with_bits b (fold_left bits_set (bl_positions b hash) (bl_bits b)).
Definition bl_has (b : bloom) (hash : N) : bool :=
  forallb (bits_isset (bl_bits b)) (bl_positions b hash).
(* returns (added?, new filter) *)
Definition bl_add_if_not_has (b : bloom) (hash : N) : bool * bloom :=
  if bl_has b hash then (false, b) else (true, bl_add b hash).
Definition bl_clear (b : bloom) : bloom := with_bits b (map (fun _ => 0) (bl_bits b)).

(* JSON export = (FilterSet bytes, SetLocs); encoding/json is trusted to round-trip that pair. *)
Definition bl_marshal (b : bloom) : list N * N := (bl_bits b, bl_locs b).
Definition bl_unmarshal (bs : list N) (locs : N) : option bloom :=
  match bloom_new (lenN bs * 8) locs with
  | None => None
  | Some nb => Some (with_bits nb (bs ++ skipn (length bs) (bl_bits nb)))
  end.
