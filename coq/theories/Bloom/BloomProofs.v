(* Proofs about Bloom.v (C19). *)
From Ristretto Require Import Base.Word Base.ListX Base.WordProofs Bloom.Bloom.
From Coq Require Import ZifyN ZifyNat ZifyBool.
Ltac Zify.zify_post_hook ::= Z.div_mod_to_equations.
Open Scope N_scope.

Lemma byte_addr_div idx : byte_addr idx = idx / 8.
Proof.
  unfold byte_addr. rewrite !N.shiftr_div_pow2.
  change (2 ^ 6) with 64. change (2 ^ 3) with 8. lia.
Qed.

(* the filter's invariant: the byte array holds exactly size+1 bits *)
Definition bl_wf (b : bloom) : Prop :=
  8 * lenN (bl_bits b) = bl_size b + 1.

Lemma bits_isset_testbit bits idx :
  bits_isset bits idx = N.testbit (nthN bits (idx / 8) 0) (idx mod 8).
Proof. unfold bits_isset. rewrite byte_addr_div. apply land_shiftr_1. Qed.

Lemma bits_set_length bits idx : length (bits_set bits idx) = length bits.
Proof. unfold bits_set, updN. apply length_upd. Qed.

Lemma bits_set_spec bits idx idx' : idx / 8 < lenN bits ->
  bits_isset (bits_set bits idx) idx' = bits_isset bits idx' || (idx' =? idx).
Proof.
  intros Hin. rewrite !bits_isset_testbit. unfold bits_set, updN, nthN, lenN in *.
  rewrite byte_addr_div.
  destruct (N.eq_dec (idx' / 8) (idx / 8)) as [E|E].
  - rewrite E. rewrite nth_upd_same by lia. rewrite testbit_lor_shiftl1. f_equal.
    destruct (N.eqb_spec (idx' mod 8) (idx mod 8)); destruct (N.eqb_spec idx' idx); auto; lia.
  - rewrite nth_upd_other by lia.
    destruct (N.eqb_spec idx' idx); [subst; congruence|]. now rewrite orb_false_r.
Qed.

Lemma fold_set_length ps bits : length (fold_left bits_set ps bits) = length bits.
Proof.
  revert bits; induction ps as [|p ps IH]; intros bits; simpl; auto.
  rewrite IH. apply bits_set_length.
Qed.

Lemma fold_set_spec ps bits idx' :
  Forall (fun p => p / 8 < lenN bits) ps ->
  bits_isset (fold_left bits_set ps bits) idx' =
  bits_isset bits idx' || existsb (fun p => idx' =? p) ps.
Proof.
  revert bits; induction ps as [|p ps IH]; intros bits Hps; simpl.
  - now rewrite orb_false_r.
  - inversion Hps as [|? ? Hp Hps']; subst.
    rewrite IH.
    + rewrite bits_set_spec by auto. now rewrite orb_assoc.
    + unfold lenN. rewrite bits_set_length. exact Hps'.
Qed.

Lemma bl_pos_le b hash i : bl_pos b hash i <= bl_size b.
Proof. unfold bl_pos. apply land_le_r. Qed.

Lemma positions_in_range b hash : bl_wf b ->
  Forall (fun p => p / 8 < lenN (bl_bits b)) (bl_positions b hash).
Proof.
  intros Hwf. unfold bl_positions. apply Forall_map. apply Forall_forall. intros i _.
  pose proof (bl_pos_le b hash i). unfold bl_wf in Hwf. lia.
Qed.

Lemma positions_with_bits b bits hash : bl_positions (with_bits b bits) hash = bl_positions b hash.
Proof. reflexivity. Qed.

Lemma bl_add_wf b hash : bl_wf b -> bl_wf (bl_add b hash).
Proof.
  unfold bl_wf, bl_add, lenN; simpl. now rewrite fold_set_length.
Qed.

(* Has after Add: every position of [hash'] that was set stays set, and those of [hash] become set *)
Lemma bl_add_isset b hash idx' : bl_wf b ->
  bits_isset (bl_bits (bl_add b hash)) idx' =
  bits_isset (bl_bits b) idx' || existsb (fun p => idx' =? p) (bl_positions b hash).
Proof. intros Hwf. unfold bl_add; simpl. apply fold_set_spec. now apply positions_in_range. Qed.

Lemma bl_has_add_same b hash : bl_wf b -> bl_has (bl_add b hash) hash = true.
Proof.
  intros Hwf. unfold bl_has. apply forallb_forall. intros p Hp.
  rewrite bl_add_isset by auto. apply orb_true_iff. right.
  apply existsb_exists. exists p. split; [exact Hp|apply N.eqb_refl].
Qed.

Lemma bl_has_add_mono b hash hash' : bl_wf b ->
  bl_has b hash' = true -> bl_has (bl_add b hash) hash' = true.
Proof.
  intros Hwf H. unfold bl_has in *. rewrite forallb_forall in *. intros p Hp.
  rewrite bl_add_isset by auto. rewrite (H p Hp). reflexivity.
Qed.

Lemma bl_add_if_not_has_spec b hash : bl_wf b ->
  fst (bl_add_if_not_has b hash) = negb (bl_has b hash) /\
  bl_has (snd (bl_add_if_not_has b hash)) hash = true /\
  bl_wf (snd (bl_add_if_not_has b hash)) /\
  (forall h', bl_has b h' = true -> bl_has (snd (bl_add_if_not_has b hash)) h' = true).
Proof.
  intros Hwf. unfold bl_add_if_not_has. destruct (bl_has b hash) eqn:E; simpl.
  - auto.
  - repeat split; auto using bl_has_add_same, bl_add_wf. intros. now apply bl_has_add_mono.
Qed.

Lemma isset_zero (bits : list N) idx : bits_isset (map (fun _ => 0) bits) idx = false.
Proof.
  rewrite bits_isset_testbit. unfold nthN.
  assert (H : forall i, nth i (map (fun _ : N => 0) bits) 0 = 0).
  { induction bits as [|a l IH]; intros [|i]; simpl; auto. }
  rewrite H. apply N.bits_0.
Qed.

Lemma bl_has_clear b hash : 1 <= bl_locs b -> bl_has (bl_clear b) hash = false.
Proof.
  intros Hl. unfold bl_has, bl_clear. simpl.
  change (bl_positions (with_bits b _) hash) with (bl_positions b hash).
  unfold bl_positions, seqN.
  destruct (N.to_nat (bl_locs b)) as [|n] eqn:E; [lia|].
  simpl. now rewrite isset_zero.
Qed.

Lemma bl_clear_wf b : bl_wf b -> bl_wf (bl_clear b).
Proof. unfold bl_wf, bl_clear, lenN; simpl. now rewrite map_length. Qed.

(* ---------- getSize ---------- *)
Lemma shl64_pow2 j : j < 63 -> shl64 (2 ^ j) 1 = 2 ^ (j + 1).
Proof.
  intros Hj. unfold shl64. rewrite N.shiftl_mul_pow2. rewrite N.pow_add_r.
  apply u64_small. change (2 ^ 1) with 2.
  assert (2 ^ j <= 2 ^ 62) by (apply N.pow_le_mono_r; lia).
  change (2 ^ 62) with 4611686018427387904 in *. unfold two64. lia.
Qed.

Lemma get_size_loop_spec fuel j ui :
  ui <= two63 -> j <= 63 -> (64 <= fuel + N.to_nat j)%nat ->
  exists k, get_size_loop fuel (2 ^ j) j ui = Some (2 ^ k, k) /\ j <= k <= 63 /\ ui <= 2 ^ k /\
            (k = j \/ 2 ^ (k - 1) < ui).
Proof.
  revert j; induction fuel as [|fuel IH]; intros j Hui Hj Hf.
  - assert (j = 63) by lia. subst j. exists 63. simpl.
    change (2 ^ 63) with two63.
    destruct (N.ltb_spec two63 ui); [lia|]. repeat split; auto; lia.
  - simpl. destruct (N.ltb_spec (2 ^ j) ui) as [Hlt|Hge].
    + assert (Hj' : j < 63).
      { destruct (N.eq_dec j 63) as [->|]; [|lia]. change (2 ^ 63) with two63 in Hlt. lia. }
      rewrite shl64_pow2 by auto.
      destruct (IH (j + 1)) as (k & Hk & Hr & Hu & Hm); auto; try lia.
      exists k. split; [exact Hk|]. split; [lia|]. split; [exact Hu|].
      right. destruct Hm as [->|Hm]; auto. now replace (j + 1 - 1) with j by lia.
    + exists j. repeat split; auto; lia.
Qed.

Lemma get_size_spec x : x <= two63 ->
  exists k, get_size x = Some (2 ^ k, k) /\ 9 <= k <= 63 /\ x <= 2 ^ k /\ 512 <= 2 ^ k /\
            (k = 9 \/ 2 ^ (k - 1) < x).
Proof.
  intros Hx. unfold get_size.
  set (ui := if x <? 512 then 512 else x).
  assert (Hui : ui <= two63) by (subst ui; destruct (N.ltb_spec x 512); unfold two63 in *; lia).
  destruct (get_size_loop_spec 65 0 ui Hui) as (k & Hk & Hr & Hu & Hm); try lia.
  change (2 ^ 0) with 1 in Hk.
  assert (H9 : 9 <= k).
  { destruct (N.lt_ge_cases k 9) as [Hlt|]; auto.
    assert (2 ^ k <= 2 ^ 8) by (apply N.pow_le_mono_r; lia).
    change (2 ^ 8) with 256 in *. subst ui. destruct (N.ltb_spec x 512); lia. }
  assert (512 <= 2 ^ k).
  { change 512 with (2 ^ 9). apply N.pow_le_mono_r; lia. }
  exists k. split; [exact Hk|]. repeat split; try lia.
  - subst ui. destruct (N.ltb_spec x 512); lia.
  - destruct Hm as [->|Hm]; [lia|]. destruct (N.eq_dec k 9); [now left|right].
    subst ui. destruct (N.ltb_spec x 512); auto.
    assert (2 ^ 9 <= 2 ^ (k - 1)) by (apply N.pow_le_mono_r; lia).
    change (2 ^ 9) with 512 in *. lia.
Qed.

Lemma get_size_pow2 e : 9 <= e <= 63 -> get_size (2 ^ e) = Some (2 ^ e, e).
Proof.
  intros He.
  assert (Hle : 2 ^ e <= two63) by (change two63 with (2 ^ 63); apply N.pow_le_mono_r; lia).
  destruct (get_size_spec (2 ^ e) Hle) as (k & Hk & Hr & Hu & H5 & Hm).
  rewrite Hk. assert (k = e); [|now subst].
  assert (e <= k) by (apply N.pow_le_mono_r_iff in Hu; lia).
  destruct Hm as [->|Hm]; [lia|].
  apply N.pow_lt_mono_r_iff in Hm; lia.
Qed.

(* ---------- a filter as produced by the constructor ---------- *)
Definition bl_made (b : bloom) : Prop :=
  9 <= bl_sizeExp b <= 63 /\ bl_size b = 2 ^ bl_sizeExp b - 1 /\ bl_shift b = 64 - bl_sizeExp b /\
  8 * lenN (bl_bits b) = 2 ^ bl_sizeExp b.

Lemma bl_made_wf b : bl_made b -> bl_wf b.
Proof.
  intros (He & Hs & _ & Hl). unfold bl_wf. rewrite Hs, Hl.
  assert (0 < 2 ^ bl_sizeExp b) by (apply N.neq_0_lt_0, N.pow_nonzero; lia). lia.
Qed.

Lemma pow2_div64 e : 6 <= e -> N.shiftr (2 ^ e) 6 * 8 * 8 = 2 ^ e.
Proof.
  intros He. rewrite N.shiftr_div_pow2.
  replace e with (6 + (e - 6)) by lia. rewrite N.pow_add_r.
  change (2 ^ 6) with 64. set (q := 2 ^ (e - 6)). lia.
Qed.

Lemma bloom_new_made entries locs : entries <= two63 ->
  exists b, bloom_new entries locs = Some b /\ bl_made b /\ bl_locs b = locs /\
            entries <= bl_size b + 1 /\ Forall (fun x => x = 0) (bl_bits b).
Proof.
  intros He. unfold bloom_new.
  destruct (get_size_spec entries He) as (k & Hk & Hr & Hu & H5 & Hm). rewrite Hk.
  eexists; split; [reflexivity|]. unfold bl_made; cbn [bl_sizeExp bl_size bl_shift bl_bits bl_locs].
  assert (0 < 2 ^ k) by (apply N.neq_0_lt_0, N.pow_nonzero; lia).
  repeat split; try lia.
  - unfold lenN. rewrite repeat_length. rewrite N2Nat.id.
    pose proof (pow2_div64 k ltac:(lia)). lia.
  - apply Forall_forall. intros x Hx. now apply repeat_spec in Hx.
Qed.

(* ---------- JSON round trip ---------- *)
Lemma bl_unmarshal_marshal b : bl_made b ->
  bl_unmarshal (fst (bl_marshal b)) (snd (bl_marshal b)) = Some b.
Proof.
  intros (He & Hs & Hsh & Hl). unfold bl_marshal, bl_unmarshal; cbn [fst snd].
  replace (lenN (bl_bits b) * 8) with (2 ^ bl_sizeExp b) by lia.
  unfold bloom_new. rewrite get_size_pow2 by auto.
  unfold with_bits; cbn [bl_sizeExp bl_size bl_shift bl_bits bl_locs].
  destruct b as [bits e size locs shift]; cbn [bl_sizeExp bl_size bl_shift bl_bits bl_locs] in *. f_equal. f_equal; try congruence.
  rewrite skipn_all2; [apply app_nil_r|].
  rewrite repeat_length. pose proof (pow2_div64 e ltac:(lia)). unfold lenN in Hl. lia.
Qed.
