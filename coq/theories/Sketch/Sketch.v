(* Model of sketch.go: cmRow (two 4-bit counters per byte), cmSketch (4 rows, seeds, mask),
   next2Power.  Definitions only. *)
From Ristretto Require Import Base.Word.
Open Scope N_scope.

(* ---- cmRow : list of bytes ---- *)
Definition row := list N.

(* (r[n/2] >> ((n & 1) * 4)) & 0x0f *)
Definition nib_get (b n : N) : N := N.land (N.shiftr b (N.land n 1 * 4)) 15.
Definition row_get (r : row) (n : N) : N := nib_get (nthN r (n / 2) 0) n.

(* v := (r[i] >> s) & 0x0f; if v < 15 { r[i] += 1 << s }   (byte arithmetic wraps mod 256) *)
Definition nib_inc (b n : N) : N :=
  let s := N.land n 1 * 4 in
  let v := N.land (N.shiftr b s) 15 in
  if v <? 15 then u8 (b + N.shiftl 1 s) else b.
Definition row_inc (r : row) (n : N) : row :=
  let i := n / 2 in updN r i (nib_inc (nthN r i 0) n).

(* r[i] = (r[i] >> 1) & 0x77 *)
Definition byte_reset (b : N) : N := N.land (N.shiftr b 1) 119.
Definition row_reset (r : row) : row := map byte_reset r.
Definition row_clear (r : row) : row := map (fun _ => 0) r.

(* ---- next2Power on int64 (Z, arithmetic shifts; the final x++ may wrap) ---- *)
Definition next2power (x : Z) : Z :=
  let x := wrap64 (x - 1) in
  let x := Z.lor x (Z.shiftr x 1) in
  let x := Z.lor x (Z.shiftr x 2) in
  let x := Z.lor x (Z.shiftr x 4) in
  let x := Z.lor x (Z.shiftr x 8) in
  let x := Z.lor x (Z.shiftr x 16) in
  let x := Z.lor x (Z.shiftr x 32) in
  wrap64 (x + 1).

(* ---- cmSketch ---- *)
Record sketch := { sk_rows : list row; sk_seeds : list N; sk_mask : N }.

Definition zero_row (nbytes : nat) : row := repeat 0 nbytes.

(* newCmSketch(numCounters) with the four seeds supplied (the code draws them at random). *)
Definition sketch_new (numCounters : Z) (seeds : list N) : sketch :=
  let n := Z.to_N (next2power numCounters) in
  {| sk_rows := map (fun _ => zero_row (N.to_nat (n / 2))) seeds;
     sk_seeds := seeds;
     sk_mask := u64 (n + two64 - 1) |}.

Definition slot (s : sketch) (seed h : N) : N := N.land (N.lxor h seed) (sk_mask s).

Fixpoint rows_inc (mask : N) (rows : list row) (seeds : list N) (h : N) : list row :=
  match rows, seeds with
  | r :: rs, sd :: sds => row_inc r (N.land (N.lxor h sd) mask) :: rows_inc mask rs sds h
  | rs, _ => rs
  end.
Definition sk_increment (s : sketch) (h : N) : sketch :=
  {| sk_rows := rows_inc (sk_mask s) (sk_rows s) (sk_seeds s) h;
     sk_seeds := sk_seeds s; sk_mask := sk_mask s |}.

Fixpoint rows_est (mask : N) (rows : list row) (seeds : list N) (h : N) (acc : N) : N :=
  match rows, seeds with
  | r :: rs, sd :: sds =>
      let v := row_get r (N.land (N.lxor h sd) mask) in
      rows_est mask rs sds h (if v <? acc then v else acc)
  | _, _ => acc
  end.
Definition sk_estimate (s : sketch) (h : N) : N :=
  rows_est (sk_mask s) (sk_rows s) (sk_seeds s) h 255.

Definition sk_reset (s : sketch) : sketch :=
  {| sk_rows := map row_reset (sk_rows s); sk_seeds := sk_seeds s; sk_mask := sk_mask s |}.
Definition sk_clear (s : sketch) : sketch :=
  {| sk_rows := map row_clear (sk_rows s); sk_seeds := sk_seeds s; sk_mask := sk_mask s |}.
