(* Proofs about TinyLFU.v (C18, used by C09). *)
From Ristretto Require Import Base.Word Base.ListX Base.WordProofs Sketch.Sketch Sketch.SketchProofs
  Bloom.Bloom Bloom.BloomProofs Sketch.TinyLFU.
From Coq Require Import ZifyN ZifyNat ZifyBool.
Open Scope N_scope.

Definition tl_wf (t : tinylfu) : Prop :=
  sk_wf (tl_freq t) /\ sk_rows (tl_freq t) <> [] /\ bl_wf (tl_door t).

(* the step of tl_increment before the reset test *)
Definition tl_bump (t : tinylfu) (key : N) : tinylfu :=
  let '(added, door) := bl_add_if_not_has (tl_door t) key in
  {| tl_freq := if added then tl_freq t else sk_increment (tl_freq t) key; tl_door := door;
     tl_incrs := (tl_incrs t + 1)%Z; tl_resetAt := tl_resetAt t |}.

Lemma tl_increment_bump t key :
  tl_increment t key =
  if (tl_resetAt t <=? tl_incrs t + 1)%Z then tl_reset (tl_bump t key) else tl_bump t key.
Proof.
  unfold tl_increment, tl_bump. destruct (bl_add_if_not_has (tl_door t) key) as [a d]. reflexivity.
Qed.

Lemma rows_inc_nonempty mask rows seeds h : rows <> [] -> rows_inc mask rows seeds h <> [].
Proof. destruct rows, seeds; simpl; congruence. Qed.

Lemma tl_bump_wf t key : tl_wf t -> tl_wf (tl_bump t key).
Proof.
  intros (Hs & Hne & Hd). unfold tl_bump.
  pose proof (bl_add_if_not_has_spec (tl_door t) key Hd) as (_ & _ & Hw & _).
  destruct (bl_add_if_not_has (tl_door t) key) as [a d]. cbn [snd] in Hw.
  unfold tl_wf. destruct a; cbn [tl_freq tl_door].
  - auto.
  - split; [apply sk_increment_wf; auto|]. split; [|auto].
    unfold sk_increment; cbn [sk_rows]. apply rows_inc_nonempty; auto.
Qed.

Lemma tl_estimate_le16 t k : tl_wf t -> tl_estimate t k <= 16.
Proof.
  intros (Hs & Hne & _). unfold tl_estimate.
  pose proof (sk_estimate_le15 _ k Hs Hne). destruct (bl_has (tl_door t) k); lia.
Qed.

(* recording any access never lowers any key's estimate (no reset) *)
Lemma tl_bump_mono t h k : tl_wf t -> tl_estimate t k <= tl_estimate (tl_bump t h) k.
Proof.
  intros (Hs & Hne & Hd). unfold tl_estimate, tl_bump.
  pose proof (bl_add_if_not_has_spec (tl_door t) h Hd) as (_ & _ & _ & Hmono).
  destruct (bl_add_if_not_has (tl_door t) h) as [a d]. simpl in *.
  assert (Hsk : sk_estimate (tl_freq t) k <= sk_estimate (if a then tl_freq t else sk_increment (tl_freq t) h) k).
  { destruct a; [lia|]. now apply sk_increment_mono. }
  destruct (bl_has (tl_door t) k) eqn:E.
  - rewrite (Hmono k E). lia.
  - destruct (bl_has d k); lia.
Qed.

(* recording an access of k raises k's estimate by one, saturating at 16 *)
Lemma tl_bump_hit t k : tl_wf t -> N.min 16 (tl_estimate t k + 1) <= tl_estimate (tl_bump t k) k.
Proof.
  intros (Hs & Hne & Hd). unfold tl_estimate, tl_bump.
  pose proof (bl_add_if_not_has_spec (tl_door t) k Hd) as (Hfst & Hhas & _ & _).
  destruct (bl_add_if_not_has (tl_door t) k) as [a d]. simpl in *. rewrite Hhas.
  destruct (bl_has (tl_door t) k) eqn:E; simpl in Hfst; subst a.
  - pose proof (sk_increment_hit (tl_freq t) k Hs). lia.
  - lia.
Qed.

Definition tl_bumps (t : tinylfu) (hs : list N) : tinylfu := fold_left tl_bump hs t.

Lemma tl_bumps_lower t hs k : tl_wf t ->
  N.min 16 (tl_estimate t k + N.of_nat (count_occ N.eq_dec hs k)) <= tl_estimate (tl_bumps t hs) k.
Proof.
  revert t; induction hs as [|h hs IH]; intros t Hwf; unfold tl_bumps in *.
  - simpl. lia.
  - cbn [fold_left count_occ]. specialize (IH (tl_bump t h) (tl_bump_wf t h Hwf)).
    destruct (N.eq_dec h k) as [->|Hne].
    + pose proof (tl_bump_hit t k Hwf). lia.
    + pose proof (tl_bump_mono t h k Hwf). lia.
Qed.

Lemma tl_bump_incrs t h : tl_incrs (tl_bump t h) = (tl_incrs t + 1)%Z /\ tl_resetAt (tl_bump t h) = tl_resetAt t.
Proof. unfold tl_bump. destruct (bl_add_if_not_has (tl_door t) h); simpl; auto. Qed.

(* while the increment counter stays below resetAt, Push is a sequence of bumps *)
Lemma tl_push_no_reset t hs :
  (tl_incrs t + Z.of_nat (length hs) < tl_resetAt t)%Z -> tl_push t hs = tl_bumps t hs.
Proof.
  revert t; induction hs as [|h hs IH]; intros t H; unfold tl_push, tl_bumps in *; simpl in *; auto.
  rewrite tl_increment_bump.
  destruct (Z.leb_spec (tl_resetAt t) (tl_incrs t + 1)); [lia|].
  apply IH. destruct (tl_bump_incrs t h) as [-> ->]. lia.
Qed.

(* the increment that reaches resetAt: counters halved, doorkeeper emptied, incrs zeroed *)
Lemma tl_increment_reset t k : (tl_resetAt t <= tl_incrs t + 1)%Z ->
  tl_increment t k = tl_reset (tl_bump t k).
Proof.
  intros H. rewrite tl_increment_bump. destruct (Z.leb_spec (tl_resetAt t) (tl_incrs t + 1)); auto; lia.
Qed.

Lemma tl_reset_spec t : tl_wf t -> 1 <= bl_locs (tl_door t) ->
  tl_incrs (tl_reset t) = 0%Z /\
  (forall h, bl_has (tl_door (tl_reset t)) h = false) /\
  (forall i n, (i < length (sk_rows (tl_freq t)))%nat ->
     row_get (nth i (sk_rows (tl_freq (tl_reset t))) []) n = row_get (nth i (sk_rows (tl_freq t)) []) n / 2).
Proof.
  intros (Hs & Hne & Hd) Hl. unfold tl_reset; simpl. repeat split.
  - intros h. now apply bl_has_clear.
  - intros i n Hi. now apply sk_reset_counter.
Qed.

Lemma tl_clear_spec t : tl_wf t -> 1 <= bl_locs (tl_door t) ->
  tl_incrs (tl_clear t) = 0%Z /\ forall h, tl_estimate (tl_clear t) h = 0.
Proof.
  intros (Hs & Hne & Hd) Hl. split; [reflexivity|]. intros h. unfold tl_estimate, tl_clear; simpl.
  rewrite bl_has_clear by auto. apply sk_clear_estimate; auto. apply Hs.
Qed.
