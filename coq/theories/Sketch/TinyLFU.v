(* Model of tinyLFU in policy.go: count-min sketch + Bloom doorkeeper + incrs/resetAt. *)
From Ristretto Require Import Base.Word Sketch.Sketch Bloom.Bloom.
Open Scope N_scope.

Record tinylfu := { tl_freq : sketch; tl_door : bloom; tl_incrs : Z; tl_resetAt : Z }.

Definition tl_estimate (t : tinylfu) (key : N) : N :=
  let hits := sk_estimate (tl_freq t) key in
  if bl_has (tl_door t) key then hits + 1 else hits.

Definition tl_reset (t : tinylfu) : tinylfu :=
  {| tl_freq := sk_reset (tl_freq t); tl_door := bl_clear (tl_door t);
     tl_incrs := 0; tl_resetAt := tl_resetAt t |}.

Definition tl_increment (t : tinylfu) (key : N) : tinylfu :=
  let '(added, door) := bl_add_if_not_has (tl_door t) key in
  let freq := if added then tl_freq t else sk_increment (tl_freq t) key in
  let t1 := {| tl_freq := freq; tl_door := door;
               tl_incrs := (tl_incrs t + 1)%Z; tl_resetAt := tl_resetAt t |} in
  if (tl_resetAt t1 <=? tl_incrs t1)%Z then tl_reset t1 else t1.

Definition tl_push (t : tinylfu) (keys : list N) : tinylfu := fold_left tl_increment keys t.

Definition tl_clear (t : tinylfu) : tinylfu :=
  {| tl_freq := sk_clear (tl_freq t); tl_door := bl_clear (tl_door t);
     tl_incrs := 0; tl_resetAt := tl_resetAt t |}.

(* newTinyLFU(numCounters); the doorkeeper's (size, locs) come out of float arithmetic in the code
   and are a parameter here. *)
Definition tl_new (numCounters : Z) (seeds : list N) (door : bloom) : tinylfu :=
  {| tl_freq := sketch_new numCounters seeds; tl_door := door; tl_incrs := 0; tl_resetAt := numCounters |}.
