(* Proofs about Sketch.v (C18). *)
From Ristretto Require Import Base.Word Base.ListX Base.WordProofs Sketch.Sketch.
From Coq Require Import ZifyN ZifyNat ZifyBool.
Open Scope N_scope.

(* ---------- byte level: exhaustive over the 256 byte values and both halves ---------- *)
Definition byte_ok (b : N) : bool :=
  forallb (fun n =>
    (nib_get (nib_inc b n) n =? N.min 15 (nib_get b n + 1)) &&
    (nib_get (nib_inc b n) (1 - n) =? nib_get b (1 - n)) &&
    (nib_inc b n <? 256) && (nib_get b n <=? 15) &&
    (nib_get (byte_reset b) n =? nib_get b n / 2) && (byte_reset b <? 256)) [0; 1].

Lemma all_bytes_ok : forallb byte_ok (seqN 256) = true.
Proof. vm_compute. reflexivity. Qed.

Lemma byte_facts b n : b < 256 -> n < 2 ->
  nib_get (nib_inc b n) n = N.min 15 (nib_get b n + 1) /\
  nib_get (nib_inc b n) (1 - n) = nib_get b (1 - n) /\
  nib_inc b n < 256 /\ nib_get b n <= 15 /\
  nib_get (byte_reset b) n = nib_get b n / 2 /\ byte_reset b < 256.
Proof.
  intros Hb Hn.
  pose proof all_bytes_ok as H. rewrite forallb_forall in H.
  specialize (H b (proj2 (in_seqN 256 b) Hb)). unfold byte_ok in H.
  rewrite forallb_forall in H.
  assert (Hin : In n [0; 1]) by (simpl; lia).
  specialize (H n Hin).
  repeat (apply andb_prop in H; destruct H as [H ?]).
  repeat split; lia.
Qed.

Lemma land1_mod2 n : N.land n 1 = n mod 2.
Proof. change 1 with (N.ones 1). rewrite N.land_ones. reflexivity. Qed.

Lemma nib_get_mod b n : nib_get b n = nib_get b (n mod 2).
Proof.
  unfold nib_get. rewrite !land1_mod2. now rewrite N.mod_mod by lia.
Qed.
Lemma nib_inc_mod b n : nib_inc b n = nib_inc b (n mod 2).
Proof.
  unfold nib_inc. rewrite !land1_mod2. now rewrite N.mod_mod by lia.
Qed.

Lemma nib_get_le b n : b < 256 -> nib_get b n <= 15.
Proof.
  intros Hb. rewrite nib_get_mod.
  apply (byte_facts b (n mod 2)); auto. apply N.mod_lt; lia.
Qed.

(* ---------- rows ---------- *)
Definition row_wf (r : row) : Prop := Forall (fun b => b < 256) r.

Lemma row_inc_length r n : length (row_inc r n) = length r.
Proof. unfold row_inc, updN. apply length_upd. Qed.

Lemma row_inc_wf r n : row_wf r -> row_wf (row_inc r n).
Proof.
  intros H. unfold row_inc, updN. apply Forall_upd; auto.
  rewrite nib_inc_mod.
  apply (byte_facts (nthN r (n / 2) 0) (n mod 2)).
  - unfold nthN. apply Forall_nth_d; auto. lia.
  - apply N.mod_lt; lia.
Qed.

(* the target counter becomes min 15 (v+1) *)
Lemma row_inc_same r n : row_wf r -> n < 2 * lenN r ->
  row_get (row_inc r n) n = N.min 15 (row_get r n + 1).
Proof.
  intros Hwf Hn. unfold row_get, row_inc, updN, nthN, lenN in *.
  rewrite nth_upd_same by lia.
  rewrite nib_get_mod, nib_inc_mod, (nib_get_mod _ n).
  apply (byte_facts (nth (N.to_nat (n / 2)) r 0) (n mod 2)).
  - apply Forall_nth_d; auto. lia.
  - apply N.mod_lt; lia.
Qed.

(* every other counter of every byte is unchanged *)
Lemma row_inc_other r n m : row_wf r -> m <> n ->
  row_get (row_inc r n) m = row_get r m.
Proof.
  intros Hwf Hmn. unfold row_get, row_inc, updN, nthN.
  destruct (N.eq_dec (m / 2) (n / 2)) as [E|E].
  - destruct (Nat.lt_ge_cases (N.to_nat (n / 2)) (length r)) as [Hlt|Hge].
    + rewrite E, nth_upd_same by lia.
      assert (Hm : m mod 2 = 1 - n mod 2).
      { pose proof (N.div_mod m 2). pose proof (N.div_mod n 2).
        pose proof (N.mod_lt m 2). pose proof (N.mod_lt n 2). lia. }
      rewrite (nib_get_mod _ m), (nib_get_mod (nth _ r 0) m), nib_inc_mod, Hm.
      assert (Hb : nth (N.to_nat (n / 2)) r 0 < 256) by (apply Forall_nth_d; auto; lia).
      assert (Hn2 : n mod 2 < 2) by (apply N.mod_lt; lia).
      destruct (byte_facts _ _ Hb Hn2) as (_ & F2 & _). exact F2.
    + rewrite upd_oob by lia. reflexivity.
  - rewrite nth_upd_other by lia. reflexivity.
Qed.

Lemma row_get_le r n : row_wf r -> row_get r n <= 15.
Proof.
  intros H. unfold row_get, nthN. apply nib_get_le. apply Forall_nth_d; auto. lia.
Qed.

Lemma row_inc_mono r n m : row_wf r -> row_get r m <= row_get (row_inc r n) m.
Proof.
  intros Hwf. destruct (N.eq_dec m n) as [->|Hne].
  - destruct (N.lt_ge_cases n (2 * lenN r)) as [Hlt|Hge].
    + rewrite row_inc_same by auto. pose proof (row_get_le r n Hwf). lia.
    + unfold row_inc, updN, lenN in *. rewrite upd_oob by lia. lia.
  - rewrite row_inc_other by auto. lia.
Qed.

Lemma row_reset_get r n : row_wf r -> row_get (row_reset r) n = row_get r n / 2.
Proof.
  intros Hwf. unfold row_get, row_reset, nthN.
  change 0 with (byte_reset 0) at 1. rewrite nth_map_d.
  rewrite nib_get_mod, (nib_get_mod _ n).
  apply (byte_facts (nth (N.to_nat (n / 2)) r 0) (n mod 2)).
  - apply Forall_nth_d; auto. lia.
  - apply N.mod_lt; lia.
Qed.

Lemma row_reset_wf r : row_wf r -> row_wf (row_reset r).
Proof.
  unfold row_wf, row_reset. intros H. apply Forall_map.
  eapply Forall_impl; [|exact H]. intros b Hb. apply (byte_facts b 0); auto; lia.
Qed.

Lemma row_reset_length r : length (row_reset r) = length r.
Proof. apply map_length. Qed.

Lemma row_clear_get r n : row_get (row_clear r) n = 0.
Proof.
  unfold row_get, row_clear, nthN.
  assert (H : forall i, nth i (map (fun _ : N => 0) r) 0 = 0).
  { induction r as [|a r IH]; intros [|i]; simpl; auto. }
  rewrite H. unfold nib_get. rewrite N.shiftr_0_l. reflexivity.
Qed.

(* ---------- next2Power ---------- *)
Local Open Scope Z_scope.

Lemma wrap64_small z : 0 <= z < ztwo63 -> wrap64 z = z.
Proof.
  intros H. unfold wrap64, ztwo64, ztwo63 in *.
  rewrite Z.mod_small by lia.
  destruct (Z.ltb_spec z 9223372036854775808); lia.
Qed.

(* bits i with i + R > m are set, none above m *)
Definition smeared (m R y : Z) : Prop :=
  (forall i, 0 <= i <= m -> m < i + R -> Z.testbit y i = true) /\
  (forall i, m < i -> Z.testbit y i = false).

Lemma smear_step m R y : 0 <= m -> 0 < R -> 0 <= y -> smeared m R y ->
  smeared m (2 * R) (Z.lor y (Z.shiftr y R)).
Proof.
  intros Hm HR Hy [Hset Hclr]. split.
  - intros i Hi Hreach. rewrite Z.lor_spec, Z.shiftr_spec by lia.
    destruct (Z_lt_ge_dec m (i + R)) as [H|H].
    + rewrite Hset by lia. reflexivity.
    + rewrite (Hset (i + R)) by lia. apply orb_true_r.
  - intros i Hi. rewrite Z.lor_spec, Z.shiftr_spec by lia.
    rewrite !Hclr by lia. reflexivity.
Qed.

Lemma smear_nonneg y R : 0 <= y -> 0 <= Z.lor y (Z.shiftr y R).
Proof. intros H. apply Z.lor_nonneg; split; auto. apply Z.shiftr_nonneg; auto. Qed.

Lemma next2power_spec x : 1 <= x <= 2 ^ 62 ->
  exists k, 0 <= k <= 62 /\ next2power x = 2 ^ k /\ x <= 2 ^ k /\ (2 ^ k < 2 * x).
Proof.
  intros Hx. unfold next2power.
  assert (H62 : 2 ^ 62 = 4611686018427387904) by reflexivity.
  assert (Hx' : 1 <= x <= 4611686018427387904) by (rewrite <- H62; exact Hx).
  rewrite (wrap64_small (x - 1)) by (unfold ztwo63; lia).
  set (y := x - 1).
  destruct (Z.eq_dec y 0) as [Hy0|Hy0].
  - exists 0. rewrite Hy0. split; [lia|]. split; [reflexivity|]. subst y. change (2 ^ 0) with 1. lia.
  - assert (Hy : 0 < y) by (subst y; lia).
    set (m := Z.log2 y).
    assert (Hm : 0 <= m) by apply Z.log2_nonneg.
    pose proof (Z.log2_spec y Hy) as Hlog. fold m in Hlog.
    assert (Hm61 : m < 62).
    { apply Z.log2_lt_pow2; auto. subst y. lia. }
    assert (S0 : smeared m 1 y).
    { split.
      - intros i Hi1 Hi2. assert (i = m) by lia. subst i. apply Z.bit_log2. auto.
      - intros i Hi. apply Z.bits_above_log2; lia. }
    pose proof (smear_step m 1 y Hm ltac:(lia) ltac:(lia) S0) as S1.
    pose proof (smear_nonneg y 1 ltac:(lia)) as N1.
    set (y1 := Z.lor y (Z.shiftr y 1)) in *.
    pose proof (smear_step m 2 y1 Hm ltac:(lia) N1 S1) as S2.
    pose proof (smear_nonneg y1 2 N1) as N2.
    set (y2 := Z.lor y1 (Z.shiftr y1 2)) in *.
    pose proof (smear_step m 4 y2 Hm ltac:(lia) N2 S2) as S3.
    pose proof (smear_nonneg y2 4 N2) as N3.
    set (y3 := Z.lor y2 (Z.shiftr y2 4)) in *.
    pose proof (smear_step m 8 y3 Hm ltac:(lia) N3 S3) as S4.
    pose proof (smear_nonneg y3 8 N3) as N4.
    set (y4 := Z.lor y3 (Z.shiftr y3 8)) in *.
    pose proof (smear_step m 16 y4 Hm ltac:(lia) N4 S4) as S5.
    pose proof (smear_nonneg y4 16 N4) as N5.
    set (y5 := Z.lor y4 (Z.shiftr y4 16)) in *.
    pose proof (smear_step m 32 y5 Hm ltac:(lia) N5 S5) as S6.
    set (y6 := Z.lor y5 (Z.shiftr y5 32)) in *.
    assert (E : y6 = Z.ones (m + 1)).
    { apply Z.bits_inj'. intros i Hi. destruct S6 as [Hset Hclr].
      destruct (Z_lt_ge_dec m i) as [H|H].
      - rewrite Hclr by lia. rewrite Z.ones_spec_high by lia. reflexivity.
      - rewrite Hset by lia. rewrite Z.ones_spec_low by lia. reflexivity. }
    rewrite E. rewrite Z.ones_equiv.
    replace (Z.pred (2 ^ (m + 1)) + 1) with (2 ^ (m + 1)) by lia.
    assert (Hp : 2 ^ (m + 1) <= 2 ^ 62) by (apply Z.pow_le_mono_r; lia).
    assert (Hs : 2 ^ (m + 1) = 2 * 2 ^ m)
      by (rewrite Z.pow_add_r by lia; change (2 ^ 1) with 2; lia).
    replace (Z.succ m) with (m + 1) in Hlog by lia.
    exists (m + 1). rewrite wrap64_small by (unfold ztwo63; lia).
    subst y. repeat split; lia.
Qed.

(* ---------- cmSketch ---------- *)
Local Open Scope N_scope.

Definition sk_wf (s : sketch) : Prop :=
  length (sk_rows s) = length (sk_seeds s) /\
  Forall (fun r => row_wf r /\ sk_mask s < 2 * lenN r) (sk_rows s).

Definition slotof (mask sd h : N) : N := N.land (N.lxor h sd) mask.

Lemma slot_le mask sd h : slotof mask sd h <= mask.
Proof. apply land_le_r. Qed.

(* the estimate is a lower bound of every row's counter, and the greatest such below acc *)
Lemma rows_est_le_acc mask rows seeds h acc : rows_est mask rows seeds h acc <= acc.
Proof.
  revert seeds acc; induction rows as [|r rs IH]; intros [|sd sds] acc; simpl; try lia.
  destruct (N.ltb_spec (row_get r (N.land (N.lxor h sd) mask)) acc);
    (eapply N.le_trans; [apply IH|lia]).
Qed.

Lemma rows_est_le_nth mask rows seeds h acc i :
  (i < length rows)%nat -> (i < length seeds)%nat ->
  rows_est mask rows seeds h acc <= row_get (nth i rows []) (slotof mask (nth i seeds 0) h).
Proof.
  revert seeds acc i; induction rows as [|r rs IH]; intros [|sd sds] acc [|i] H1 H2;
    simpl in *; try lia.
  - eapply N.le_trans; [apply rows_est_le_acc|].
    unfold slotof. destruct (N.ltb_spec (row_get r (N.land (N.lxor h sd) mask)) acc); lia.
  - apply IH; lia.
Qed.

Lemma rows_est_ge mask rows seeds h acc c :
  (forall i, (i < length rows)%nat -> (i < length seeds)%nat ->
             c <= row_get (nth i rows []) (slotof mask (nth i seeds 0) h)) ->
  c <= acc -> c <= rows_est mask rows seeds h acc.
Proof.
  revert seeds acc; induction rows as [|r rs IH]; intros [|sd sds] acc Hall Hacc; simpl; auto.
  apply IH.
  - intros i H1 H2. apply (Hall (S i)); simpl; lia.
  - pose proof (Hall O ltac:(simpl; lia) ltac:(simpl; lia)) as H0. simpl in H0. unfold slotof in H0.
    destruct (N.ltb_spec (row_get r (N.land (N.lxor h sd) mask)) acc); lia.
Qed.

Lemma rows_inc_length mask rows seeds h : length (rows_inc mask rows seeds h) = length rows.
Proof.
  revert seeds; induction rows as [|r rs IH]; intros [|sd sds]; simpl; auto.
Qed.

Lemma rows_inc_nth mask rows seeds h i :
  (i < length rows)%nat -> (i < length seeds)%nat ->
  nth i (rows_inc mask rows seeds h) [] = row_inc (nth i rows []) (slotof mask (nth i seeds 0) h).
Proof.
  revert seeds i; induction rows as [|r rs IH]; intros [|sd sds] [|i] H1 H2; simpl in *; try lia; auto.
  apply IH; lia.
Qed.

Lemma sk_increment_wf s h : sk_wf s -> sk_wf (sk_increment s h).
Proof.
  intros [Hl Hr]. split; simpl.
  - now rewrite rows_inc_length.
  - revert Hl Hr. generalize (sk_seeds s). generalize (sk_mask s) as mask.
    induction (sk_rows s) as [|r rs IH]; intros mask [|sd sds] Hl Hr; simpl in *; auto; try lia.
    inversion Hr as [|? ? [Hw Hm] Hr']; subst. constructor.
    + split; [now apply row_inc_wf|]. unfold lenN. now rewrite row_inc_length.
    + apply IH; auto.
Qed.

Lemma sk_wf_nth s i : sk_wf s -> (i < length (sk_rows s))%nat ->
  row_wf (nth i (sk_rows s) []) /\ sk_mask s < 2 * lenN (nth i (sk_rows s) []).
Proof.
  intros [_ Hr] Hi. rewrite Forall_forall in Hr. apply Hr. now apply nth_In.
Qed.

(* recording an access never lowers any key's estimate *)
Lemma sk_increment_mono s h k : sk_wf s -> sk_estimate s k <= sk_estimate (sk_increment s h) k.
Proof.
  intros Hwf. unfold sk_estimate at 2. simpl.
  apply rows_est_ge; [|apply rows_est_le_acc].
  intros i H1 H2. rewrite rows_inc_length in H1.
  rewrite rows_inc_nth by auto.
  eapply N.le_trans; [apply (rows_est_le_nth _ _ _ _ _ i H1 H2)|].
  apply row_inc_mono. now apply sk_wf_nth.
Qed.

(* recording an access of k raises k's estimate by one, saturating at 15 *)
Lemma sk_increment_hit s k : sk_wf s ->
  N.min 15 (sk_estimate s k + 1) <= sk_estimate (sk_increment s k) k.
Proof.
  intros Hwf. unfold sk_estimate at 2. simpl.
  apply rows_est_ge; [|lia].
  intros i H1 H2. rewrite rows_inc_length in H1.
  rewrite rows_inc_nth by auto.
  destruct (sk_wf_nth s i Hwf H1) as [Hw Hm].
  rewrite row_inc_same; auto.
  - pose proof (rows_est_le_nth (sk_mask s) (sk_rows s) (sk_seeds s) k 255 i H1 H2).
    unfold sk_estimate. lia.
  - pose proof (slot_le (sk_mask s) (nth i (sk_seeds s) 0) k). lia.
Qed.

Lemma sk_estimate_le15 s k : sk_wf s -> sk_rows s <> [] -> sk_estimate s k <= 15.
Proof.
  intros Hwf Hne. destruct Hwf as [Hl Hr].
  destruct (sk_rows s) as [|r rs] eqn:E; [congruence|].
  destruct (sk_seeds s) as [|sd sds] eqn:E2; [simpl in Hl; lia|].
  unfold sk_estimate. rewrite E, E2.
  eapply N.le_trans; [apply (rows_est_le_nth _ _ _ _ _ O); simpl; lia|].
  simpl. apply row_get_le. inversion Hr as [|? ? [Hw _] _]; auto.
Qed.

(* n accesses of k (interleaved with any other accesses): estimate >= min 15 (old + n) *)
Lemma sk_incs_lower s hs k : sk_wf s ->
  N.min 15 (sk_estimate s k + N.of_nat (count_occ N.eq_dec hs k)) <=
  sk_estimate (fold_left sk_increment hs s) k.
Proof.
  revert s; induction hs as [|h hs IH]; intros s Hwf.
  - simpl. lia.
  - cbn [fold_left count_occ].
    specialize (IH (sk_increment s h) (sk_increment_wf s h Hwf)).
    destruct (N.eq_dec h k) as [->|Hne].
    + pose proof (sk_increment_hit s k Hwf). lia.
    + pose proof (sk_increment_mono s h k Hwf). lia.
Qed.

Lemma sk_incs_wf s hs : sk_wf s -> sk_wf (fold_left sk_increment hs s).
Proof. revert s; induction hs; simpl; auto using sk_increment_wf. Qed.

(* Reset halves every counter of every row independently; Clear zeroes them *)
Lemma sk_reset_counter s i n : sk_wf s -> (i < length (sk_rows s))%nat ->
  row_get (nth i (sk_rows (sk_reset s)) []) n = row_get (nth i (sk_rows s) []) n / 2.
Proof.
  intros Hwf Hi. simpl. change [] with (row_reset []) at 1. rewrite nth_map_d.
  apply row_reset_get. now apply sk_wf_nth.
Qed.

Lemma sk_reset_wf s : sk_wf s -> sk_wf (sk_reset s).
Proof.
  intros [Hl Hr]. split; simpl; [now rewrite map_length|].
  apply Forall_map. eapply Forall_impl; [|exact Hr]. intros r [Hw Hm].
  split; [now apply row_reset_wf|]. unfold lenN. now rewrite row_reset_length.
Qed.

Lemma sk_clear_counter s i n : row_get (nth i (sk_rows (sk_clear s)) []) n = 0.
Proof.
  simpl. destruct (Nat.lt_ge_cases i (length (sk_rows s))) as [H|H].
  - change [] with (row_clear []) at 1. rewrite nth_map_d. apply row_clear_get.
  - rewrite nth_overflow by (now rewrite map_length). unfold row_get, nthN.
    destruct (N.to_nat (n / 2)); cbn [nth]; unfold nib_get; rewrite N.shiftr_0_l; reflexivity.
Qed.

Lemma sk_clear_estimate s k : sk_rows s <> [] -> length (sk_rows s) = length (sk_seeds s) ->
  sk_estimate (sk_clear s) k = 0.
Proof.
  intros Hne Hl. apply N.le_0_r.
  destruct (sk_rows s) as [|r rs] eqn:E; [congruence|].
  destruct (sk_seeds s) as [|sd sds] eqn:E2; [simpl in Hl; lia|].
  unfold sk_estimate. simpl. rewrite E, E2. simpl.
  eapply N.le_trans; [apply rows_est_le_acc|].
  rewrite row_clear_get. simpl. lia.
Qed.

(* the table is sized to the next power of two *)
Lemma sketch_new_wf nc seeds : (2 <= nc <= 2 ^ 62)%Z ->
  exists k, (1 <= k <= 62)%Z /\ next2power nc = (2 ^ k)%Z /\ (nc <= 2 ^ k < 2 * nc)%Z /\
    sk_wf (sketch_new nc seeds) /\ sk_mask (sketch_new nc seeds) = Z.to_N (2 ^ k - 1) /\
    Forall (fun r => 2 * lenN r = Z.to_N (2 ^ k)) (sk_rows (sketch_new nc seeds)).
Proof.
  intros Hnc. destruct (next2power_spec nc ltac:(lia)) as (k & Hk & Hn & Hle & Hlt).
  assert (Hk1 : (1 <= k)%Z).
  { destruct (Z.eq_dec k 0) as [->|]; [|lia]. change (2 ^ 0)%Z with 1%Z in *. lia. }
  exists k. split; [lia|]. split; [exact Hn|]. split; [lia|].
  unfold sketch_new. rewrite Hn.
  assert (Hp : (2 ^ k = 2 * 2 ^ (k - 1))%Z).
  { replace k with (1 + (k - 1))%Z at 1 by lia. rewrite Z.pow_add_r by lia. reflexivity. }
  assert (Hpos : (0 < 2 ^ (k - 1))%Z) by (apply Z.pow_pos_nonneg; lia).
  assert (Hub : (2 ^ k <= 2 ^ 62)%Z) by (apply Z.pow_le_mono_r; lia).
  change (2 ^ 62)%Z with 4611686018427387904%Z in Hub.
  set (n := Z.to_N (2 ^ k)).
  assert (Hn2 : n = 2 * Z.to_N (2 ^ (k - 1))) by (subst n; lia).
  assert (Hmask : u64 (n + two64 - 1) = Z.to_N (2 ^ k - 1)).
  { unfold u64, two64. subst n.
    replace (Z.to_N (2 ^ k) + 18446744073709551616 - 1)
      with (Z.to_N (2 ^ k - 1) + 1 * 18446744073709551616) by lia.
    rewrite N.mod_add by lia. apply N.mod_small. lia. }
  assert (Hd : n / 2 = Z.to_N (2 ^ (k - 1))).
  { rewrite Hn2. rewrite (N.mul_comm 2). apply N.div_mul. lia. }
  repeat split; cbn [sk_rows sk_seeds sk_mask].
  - now rewrite map_length.
  - apply Forall_map. apply Forall_forall. intros sd _. split.
    + unfold row_wf, zero_row. apply Forall_forall. intros x Hx. apply repeat_spec in Hx. lia.
    + unfold lenN, zero_row. rewrite repeat_length, N2Nat.id. rewrite Hmask.
      rewrite Hd. lia.
  - exact Hmask.
  - apply Forall_map. apply Forall_forall. intros sd _.
    unfold lenN, zero_row. rewrite repeat_length, N2Nat.id.
    rewrite Hd. lia.
Qed.
