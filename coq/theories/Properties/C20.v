(* C20 — simd.Search agrees with the reference search.  Statements only.
   search_prog / search_guarded are GENERATED from z/simd/search_amd64.s and the package's Go files on
   every run (Gen/SearchAsm.v), so these theorems are re-checked against what the code says now. *)
From Ristretto Require Import Base.Word Simd.X86 Simd.SearchGo Simd.SearchProofs Gen.SearchAsm Simd.KernelProofs.
Open Scope N_scope.

(* The translated assembly kernel: for every slice whose length is a non-zero multiple of 8 (below 2^16:
   the result is an int16), every k, every content of the memory after the slice and every base address
   at which the slice fits into the address space, it terminates with first_ge and every word it reads
   lies inside the slice. *)
Theorem C20_asm_kernel : forall base xs beyond k,
  base + 8 * lenN xs <= two64 -> lenN xs < 2147483648 ->
  lenN xs mod 8 = 0 -> 8 <= lenN xs -> lenN xs < 65536 ->
  exists rd, run_kernel search_prog base xs beyond k = Some (Z.of_N (first_ge xs k), rd) /\
             Forall (fun w => w < lenN xs) rd.
Proof. exact kernel_correct. Qed.

(* The portable reference implementations, for every length (odd lengths included). *)
Theorem C20_naive : forall xs k, naive xs k = first_ge xs k.
Proof. exact naive_first_ge. Qed.

Theorem C20_portable : forall xs k, search_portable xs k = Some (first_ge xs k).
Proof. exact search_portable_first_ge. Qed.

(* The exported amd64 Search (as the translator found it: length-guarded Go wrapper around the kernel):
   first_ge for EVERY length below 2^16, whatever follows the slice in memory. *)
Theorem C20_search : forall base xs beyond k,
  base + 8 * lenN xs <= two64 -> lenN xs < 65536 ->
  search_amd64 search_guarded search_prog base xs beyond k = Some (Z.of_N (first_ge xs k)).
Proof.
  intros base xs beyond k Hb Hl. unfold search_amd64.
  change search_guarded with true. cbn [andb].
  destruct ((lenN xs <? 8) || negb (lenN xs mod 8 =? 0)) eqn:E.
  - now rewrite naive_first_ge.
  - apply orb_false_elim in E. destruct E as [E1 E2].
    apply N.ltb_ge in E1. apply negb_false_iff, N.eqb_eq in E2.
    destruct (kernel_correct base xs beyond k Hb ltac:(lia) E2 E1 Hl) as (rd & -> & _). reflexivity.
Qed.

Theorem C20_independent_of_memory_beyond : forall base xs b1 b2 k,
  base + 8 * lenN xs <= two64 -> lenN xs < 65536 ->
  search_amd64 search_guarded search_prog base xs b1 k = search_amd64 search_guarded search_prog base xs b2 k.
Proof. intros. rewrite !C20_search by assumption. reflexivity. Qed.

(* Regression witness: without the guard the kernel's answer on a 2-word slice depends on what follows it. *)
Theorem C20_kernel_overread :
  run_kernel search_prog 4096 [1; 0] [0; 0; 5; 0; 0; 0; 0; 0] 3 <> run_kernel search_prog 4096 [1; 0] [9; 0; 5; 0; 0; 0; 0; 0] 3.
Proof. vm_compute. discriminate. Qed.

Example C20_nonvacuous :
  search_amd64 search_guarded search_prog 4096 [1; 0; 3; 0; 5; 0; 7; 0; 9; 0; 11; 0; 13; 0; 15; 0] [0; 0; 0; 0; 0; 0; 0; 0] 10
  = Some 5%Z /\ first_ge [1; 0; 3; 0; 5; 0; 7; 0; 9; 0; 11; 0; 13; 0; 15; 0] 10 = 5.
Proof. split; vm_compute; reflexivity. Qed.

Print Assumptions C20_asm_kernel.
Print Assumptions C20_search.
Print Assumptions C20_portable.
