From Ristretto Require Import Base.Word Simd.X86 Simd.SearchGo.
Theorem C20_placeholder : first_ge [] 0 = 0%N.
Proof. reflexivity. Qed.
