(* C16 — a persistent z.Tree reopens to the same contents.  Statements only. (placeholder while the proofs are built) *)
From Ristretto Require Import Base.Word Tree.Node Tree.Tree Tree.Reopen.
Open Scope N_scope.
Example C16_nonvacuous : exists st st', tree_new_file 4 80 = Some st /\ tree_reopen 4 80 st = Some st' /\ root st' = root st.
Proof. do 2 eexists; repeat split; vm_compute; reflexivity. Qed.
