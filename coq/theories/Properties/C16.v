(* C16 — a persistent z.Tree reopens to the same contents.  Statements only.

   Model: Tree/Reopen.v ([persist]: the file a clean Close leaves = page table + file size; [reinit] as in the code:
   frontier scan with the repaired bound, tail marking by traversal, pointed pages, first page neither reached nor
   pointed to = free head, stats recount; [tree_reopen] = Close + NewTreePersistent). *)
From Ristretto Require Import Base.Word Tree.Node Tree.NodeProofs Tree.Tree Tree.TreeProofs Tree.Reopen Tree.ReopenProofs.
Open Scope N_scope.

(* The full statement: for every history and every split point, reopening in between changes nothing observable
   (same tree pages, same leaf entries hence same map, same nextPage / NumPages, same free list hence the same
   future recycling, same NumLeafKeys and NumPagesFree) and the continued run ends in the same observable state. *)
Definition C16_reopen_statement : Prop :=
  forall M ps a b, (4 <= M)%nat -> ps <= 1048568 -> Forall op_ok (a ++ b) -> reopen_agrees M ps a b = true.

(* PARTIAL.  Proved: the well-formedness invariant the reopen argument needs holds at every point of every history of
   a persistent tree: tree pages and free list are duplicate-free and are exactly the ids 1..nextPage-1 (so the pages
   reinit does not reach from the root are exactly the free list), the stats are exact recounts (what reinit
   recomputes), and the map is correct (C10), so every close point is a state of this kind.
   Missing for C16_reopen_statement: the three lemmas about reinit itself -- (1) rebuild (page_of root fl) 1 = root
   (lookup of a page id in the table of a duplicate-free tree), (2) frontier = nextPage, (3) the first page neither
   reached nor pointed to is the free-list head and following word 0 from it gives back the free list. *)
Theorem C16_reopen_partial : forall M ps ops, (4 <= M)%nat -> ps <= 1048568 -> Forall op_ok ops ->
  exists st0 st, tree_new_file M ps = Some st0 /\ run M ps ops st0 = Some st /\ WFt M st /\
    NoDup (pids (root st) ++ freeList (al st)) /\
    (forall p, In p (pids (root st) ++ freeList (al st)) <-> 1 <= p < nextPage (al st)) /\
    stat_leaf_keys st = Z.of_nat (length (entries (root st))) /\
    stat_pages_free st = Z.of_nat (length (freeList (al st))) /\
    nextPage (al st) * ps <= data_len (al st) /\ offset (al st) <= curSz (al st).
Proof.
  intros M ps ops HM Hps Hok.
  destruct (new_file_wf M HM ps Hps) as (st0 & H0 & Hwf0).
  destruct (history_wf M HM ps ops Hps st0 Hwf0 Hok) as (st & Hr & [Hwt Hwa]).
  exists st0, st. split; [exact H0|]. split; [exact Hr|]. split; [exact Hwt|].
  destruct (wfa_pages M HM ps st Hwa) as (H1 & H2 & H3 & H4).
  destruct Hwa as [(_ & _ & _ & _ & H5 & H6) _].
  split; [exact H1|]. split; [exact H2|]. split; [exact H3|]. split; [exact H4|]. split; [exact H6|exact H5].
Qed.

(* The full statement evaluated: page size 80 (M = 4), a history with 3 levels of splits, overwrites, a DeleteBelow
   that frees pages, re-inserts that recycle them, a rewriting IterateKV and a second DeleteBelow -- closed and
   reopened at EVERY one of its split points. *)
Definition c16_ops : list op :=
  map (fun i => OSet (N.of_nat i) (100 + N.of_nat i)) (seq 1 24) ++
  map (fun i => OSet (N.of_nat i) 5) (seq 1 10) ++ [ODeleteBelow 50] ++
  map (fun i => OSet (N.of_nat i) 7) [30; 31; 2; 3]%nat ++
  [OIterate (fun k v => if v =? 7 then 60 else 0); ODeleteBelow 110] ++
  map (fun i => OSet (N.of_nat i) 9) [40; 41; 42; 43; 44; 45]%nat.
Example C16_reopen_every_split_point : all_splits 4 80 c16_ops = true.
Proof. vm_compute; reflexivity. Qed.

(* page size 96 (M = 5), keys around 2^64-2, delete everything, refill *)
Definition c16_ops2 : list op :=
  map (fun i => OSet (18446744073709551614 - N.of_nat i) (1 + N.of_nat i)) (seq 0 30) ++ [ODeleteBelow 1000] ++
  map (fun i => OSet (N.of_nat i) 3) (seq 1 12) ++ [ODeleteBelow 3; OReset] ++
  map (fun i => OSet (1000 * N.of_nat i) 3) (seq 1 12).
Example C16_reopen_every_split_point_2 : all_splits 5 96 c16_ops2 = true.
Proof. vm_compute; reflexivity. Qed.

Example C16_nonvacuous : exists st0 st st', tree_new_file 4 80 = Some st0 /\ run 4 80 (firstn 35 c16_ops) st0 = Some st /\
  tree_reopen 4 80 st = Some st' /\ freeList (al st) = [8; 4; 2] /\ freeList (al st') = [8; 4; 2] /\
  nextPage (al st') = 23 /\ root st' = root st /\ curSz (al st') = 1048576.
Proof.
  do 3 eexists. split; [vm_compute; reflexivity|]. split; [vm_compute; reflexivity|].
  split; [vm_compute; reflexivity|]. repeat split; vm_compute; reflexivity.
Qed.

Print Assumptions C16_reopen_partial.
Print Assumptions C16_reopen_every_split_point.
Print Assumptions C16_nonvacuous.
