(* C16 — a persistent z.Tree reopens to the same contents.  Statements only.

   Model: Tree/Reopen.v ([persist]: the file a clean Close leaves = page table + file size; [reinit] as in the code:
   frontier scan with the repaired bound, tail marking by traversal, pointed pages, first page neither reached nor
   pointed to = free head, stats recount; [tree_reopen] = Close + NewTreePersistent). *)
From Ristretto Require Import Base.Word Tree.Node Tree.NodeProofs Tree.Tree Tree.TreeProofs Tree.Reopen Tree.ReopenProofs.
Open Scope N_scope.

(* The full statement in executable form: for every history a ++ b (every split point), running a, closing and
   reopening, then running b, versus running a ++ b without the reopen: the observable state -- page ids of the tree
   in traversal order, leaf entries (hence the map), nextPage (NumPages), the whole free list (freePage and all later
   recycling), NumLeafKeys, NumPagesFree; everything but the buffer size -- is the same right after the reopen and at
   the end; no step panics ([reopen_agrees] is false if any step yields None). *)
Theorem C16_reopen_agrees : forall M ps a b, (4 <= M)%nat -> 0 < ps <= 1048568 -> Forall op_ok a -> Forall op_ok b ->
  reopen_agrees M ps a b = true.
Proof. intros M ps a b HM. exact (reopen_agrees_true M HM ps a b). Qed.

(* Close + NewTreePersistent at any point of any history: the reopened tree has the same pages and leaf entries (hence
   the same key-value mapping), the same nextPage (NumPages), the same free list (freePage and every later recycling
   decision), the same NumLeafKeys and NumPagesFree; reinit does not panic (the frontier scan stays inside data); the
   reopened state satisfies the full invariant WF, so it continues to behave as a correct map and its page accounting
   stays exact (recycled pages are handed out again, never twice): running any further history b on it succeeds,
   keeps WF, and ends with exactly the map of the un-interrupted history a ++ b. *)
Theorem C16_reopen : forall M ps a b, (4 <= M)%nat -> 0 < ps <= 1048568 -> Forall op_ok a -> Forall op_ok b ->
  exists st0 s s' y,
    tree_new_file M ps = Some st0 /\ run M ps a st0 = Some s /\ tree_reopen M ps s = Some s' /\
    (root s' = root s /\ nextPage (al s') = nextPage (al s) /\ freeList (al s') = freeList (al s) /\
     stat_leaf_keys s' = stat_leaf_keys s /\ stat_pages s' = stat_pages s /\
     stat_pages_free s' = stat_pages_free s /\ stat_free_page s' = stat_free_page s) /\
    (forall k, abs_st s' k = abs_st s k) /\ WF M ps s' /\
    run M ps b s' = Some y /\ WF M ps y /\
    (forall k, abs_st y k = ref_run (a ++ b) (fun _ => 0) k) /\
    (forall k, valid_key k -> tree_get y k = ref_run (a ++ b) (fun _ => 0) k).
Proof.
  intros M ps a b HM [Hps0 Hps] Ha Hb.
  destruct (new_file_wf M HM ps Hps) as (st0 & H0 & Hwf0).
  destruct (tree_new_file_spec M HM ps) as (st0' & H0' & _ & Habs0). rewrite H0 in H0'. injection H0' as <-.
  destruct (history_spec M HM ps a st0 (fun _ => 0) (proj1 Hwf0) Habs0 Ha) as (s & Hra & _ & Habs_s).
  destruct (history_wf M HM ps a Hps st0 Hwf0 Ha) as (s2 & Hra2 & Hwf_s). rewrite Hra in Hra2. injection Hra2 as <-.
  pose proof (tree_reopen_spec M HM ps s Hps0 (proj2 Hwf_s)) as Hro.
  pose proof (reopened_wf M ps s Hwf_s) as Hwf_s'.
  assert (Habs_s' : forall k, abs_st (reopened s) k = ref_run a (fun _ => 0) k) by (intros k; apply Habs_s).
  destruct (history_spec M HM ps b (reopened s) _ (proj1 Hwf_s') Habs_s' Hb) as (y & Hrb & Hwt_y & Habs_y).
  destruct (history_wf M HM ps b Hps (reopened s) Hwf_s' Hb) as (y2 & Hrb2 & Hwf_y). rewrite Hrb in Hrb2. injection Hrb2 as <-.
  exists st0, s, (reopened s), y.
  assert (Hfinal : forall k, abs_st y k = ref_run (a ++ b) (fun _ => 0) k).
  { intros k. rewrite Habs_y. unfold ref_run. rewrite fold_left_app. reflexivity. }
  split; [exact H0|]. split; [exact Hra|]. split; [exact Hro|].
  split; [repeat split|]. split; [reflexivity|]. split; [exact Hwf_s'|]. split; [exact Hrb|].
  split; [exact Hwf_y|]. split; [exact Hfinal|].
  intros k Hk. rewrite (tree_get_spec M HM y k Hwt_y Hk). apply Hfinal.
Qed.

(* the reopened state and the state before the close are equal in the boolean observable projection used below *)
Theorem C16_reopen_same_obs : forall M ps st, (4 <= M)%nat -> 0 < ps -> WF M ps st ->
  exists st', tree_reopen M ps st = Some st' /\ same_obs st st' = true /\ WF M ps st'.
Proof.
  intros M ps st HM Hps Hwf. exists (reopened st).
  split; [exact (tree_reopen_spec M HM ps st Hps (proj2 Hwf))|]. split; [apply reopened_same|apply reopened_wf; exact Hwf].
Qed.

(* C16_reopen_agrees evaluated (a sanity check of the statement itself; the theorem covers all histories): page size 80 (M = 4), a history with 3 levels of splits, overwrites, a DeleteBelow
   that frees pages, re-inserts that recycle them, a rewriting IterateKV and a second DeleteBelow -- closed and
   reopened at EVERY one of its split points. *)
Definition c16_ops : list op :=
  map (fun i => OSet (N.of_nat i) (100 + N.of_nat i)) (seq 1 24) ++
  map (fun i => OSet (N.of_nat i) 5) (seq 1 10) ++ [ODeleteBelow 50] ++
  map (fun i => OSet (N.of_nat i) 7) [30; 31; 2; 3]%nat ++
  [OIterate (fun k v => if v =? 7 then 60 else 0); ODeleteBelow 110] ++
  map (fun i => OSet (N.of_nat i) 9) [40; 41; 42; 43; 44; 45]%nat.
Example C16_reopen_every_split_point : all_splits 4 80 c16_ops = true.
Proof. vm_compute; reflexivity. Qed.

(* page size 96 (M = 5), keys around 2^64-2, delete everything, refill *)
Definition c16_ops2 : list op :=
  map (fun i => OSet (18446744073709551614 - N.of_nat i) (1 + N.of_nat i)) (seq 0 30) ++ [ODeleteBelow 1000] ++
  map (fun i => OSet (N.of_nat i) 3) (seq 1 12) ++ [ODeleteBelow 3; OReset] ++
  map (fun i => OSet (1000 * N.of_nat i) 3) (seq 1 12).
Example C16_reopen_every_split_point_2 : all_splits 5 96 c16_ops2 = true.
Proof. vm_compute; reflexivity. Qed.

Example C16_nonvacuous : exists st0 st st', tree_new_file 4 80 = Some st0 /\ run 4 80 (firstn 35 c16_ops) st0 = Some st /\
  tree_reopen 4 80 st = Some st' /\ freeList (al st) = [8; 4; 2] /\ freeList (al st') = [8; 4; 2] /\
  nextPage (al st') = 23 /\ root st' = root st /\ curSz (al st') = 1048576.
Proof.
  do 3 eexists. split; [vm_compute; reflexivity|]. split; [vm_compute; reflexivity|].
  split; [vm_compute; reflexivity|]. repeat split; vm_compute; reflexivity.
Qed.

Print Assumptions C16_reopen.
Print Assumptions C16_reopen_agrees.
Print Assumptions C16_reopen_same_obs.
Print Assumptions C16_reopen_every_split_point.
Print Assumptions C16_nonvacuous.
