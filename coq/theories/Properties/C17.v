(* C17 — Metrics obey conservation laws.  Statements only.
   Counters are uint64; eq64 a b means a = b modulo 2^64, which is what the uint64 accessors compute.
   mz m t is the value of counter t; the cache is created with metrics enabled. *)
From stdpp Require Import gmap.
From Ristretto Require Import Base.Word Cache.Policy Cache.PolicyProofs Cache.Store Cache.Machine Cache.MachineProofs
  Cache.SyncProofs Cache.MetricsProofs.
Local Open Scope Z_scope.

(* For every schedule (any number of threads, evictions, overwrites raising or lowering costs, expiries,
   rejections, Clear), at every quiescent state: *)

(* Hits + Misses = number of Get calls (returns) since creation or the last Clear, on an open cache *)
Theorem C17_hits_misses : forall c maxCost bdur now0 sched,
  let s := mrun c (init_state maxCost bdur now0 true) sched in
  s_closed s = false ->
  eq64 (mz (s_met s) MHit + mz (s_met s) MMiss) (count is_get_ret (since_clear (s_log s))).
Proof. intros c maxCost bdur now0 sched s. exact (mi_gets _ (mv_met _ (reachable_minv c maxCost bdur now0 sched))). Qed.

(* KeysAdded - KeysEvicted = number of keys the accounting holds (= resident keys, by C13) *)
Theorem C17_keys : forall c maxCost bdur now0 sched,
  let s := mrun c (init_state maxCost bdur now0 true) sched in
  quiescent s ->
  eq64 (mz (s_met s) MKeyAdd - mz (s_met s) MKeyEvict) (Z.of_nat (size (p_costs (s_pol s)))).
Proof.
  intros c maxCost bdur now0 sched s Hq.
  pose proof (mi_keys _ (mv_met _ (reachable_minv c maxCost bdur now0 sched)) (quiescent_no_window _ Hq)) as H.
  fold s in H. destruct Hq as (_ & Ha & _). rewrite Ha in H. simpl in H. unfold KQ in H.
  replace (Z.of_nat (size (p_costs (s_pol s))))
    with ((mz (s_met s) MKeyEvict + Z.of_nat (size (p_costs (s_pol s)))) - mz (s_met s) MKeyEvict) by lia.
  apply eq64_sub; [|apply eq64_refl]. rewrite Z.add_0_r in H. exact H.
Qed.

(* CostAdded - CostEvicted = used = MaxCost - RemainingCost() *)
Theorem C17_cost : forall c maxCost bdur now0 sched,
  let s := mrun c (init_state maxCost bdur now0 true) sched in
  quiescent s ->
  eq64 (mz (s_met s) MCostAdd - mz (s_met s) MCostEvict) (p_max (s_pol s) - pol_cap (s_pol s)).
Proof.
  intros c maxCost bdur now0 sched s Hq.
  pose proof (mi_cost _ (mv_met _ (reachable_minv c maxCost bdur now0 sched)) (quiescent_no_window _ Hq)) as H.
  fold s in H. unfold CQ in H. unfold pol_cap.
  replace (p_max (s_pol s) - (p_max (s_pol s) - p_used (s_pol s))) with (0 + p_used (s_pol s)) by lia.
  replace (mz (s_met s) MCostAdd - mz (s_met s) MCostEvict)
    with ((mz (s_met s) MCostAdd - mz (s_met s) MCostEvict - p_used (s_pol s)) + p_used (s_pol s)) by lia.
  apply eq64_add; [exact H|apply eq64_refl].
Qed.

(* SetsDropped = number of Sets (with a non-negative ttl, on an open cache) that returned false, i.e. new-key
   Sets refused because the write buffer was full, since creation or the last Clear *)
Theorem C17_drops : forall c maxCost bdur now0 sched,
  let s := mrun c (init_state maxCost bdur now0 true) sched in
  s_closed s = false ->
  eq64 (mz (s_met s) MDropSets) (count is_drop_ret (since_clear (s_log s))).
Proof. intros c maxCost bdur now0 sched s. exact (mi_drops _ (mv_met _ (reachable_minv c maxCost bdur now0 sched))). Qed.

(* GetsKept + GetsDropped never exceeds the number of Gets (in every state; no modulus needed) *)
Theorem C17_ring : forall c maxCost bdur now0 sched,
  let s := mrun c (init_state maxCost bdur now0 true) sched in
  mz (s_met s) MKeepGets + mz (s_met s) MDropGets <= count is_get_ret (s_log s).
Proof.
  intros c maxCost bdur now0 sched s.
  pose proof (mi_ring _ (mv_met _ (reachable_minv c maxCost bdur now0 sched))) as H. fold s in H. lia.
Qed.

Definition c17_cfg : cfg :=
  {| c_cap := 4; c_bdur := 5; c_ignore_internal := true; c_item_size := 56; c_should := fun _ _ => true;
     c_costfn := None |}.
Definition c17_sched : list label :=
  [LCall 1 (OSet 7 100 11 60 0); LStep 1; LStep 1; LApp false []; LApp false []; LApp false []; LApp false [];
   LCall 1 (OGet 7 100); LCall 1 (OGet 9 100);
   LCall 1 (OSet 8 200 12 60 0); LStep 1; LStep 1;
   LApp false []; LApp false []; LApp false []; LApp false []; LApp false []; LApp false []; LApp false []].
Example C17_nonvacuous :
  let s := mrun c17_cfg (init_state 100 5 1000 true) c17_sched in
  s_buf s = [] /\ s_apc s = AIdle /\ s_apend s = [] /\
  List.map (fun t => m_get (s_met s) t) [MHit; MMiss; MKeyAdd; MKeyEvict; MCostAdd; MCostEvict] = [1; 1; 2; 1; 120; 60]%N.
Proof. vm_compute. repeat split. Qed.

Print Assumptions C17_hits_misses.
Print Assumptions C17_keys.
Print Assumptions C17_cost.
Print Assumptions C17_ring.
