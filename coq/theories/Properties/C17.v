(* C17 — Metrics obey conservation laws.  Statements only.
   Counters are uint64; eq64 a b means a = b modulo 2^64, which is what the uint64 accessors compute.
   mz m t is the value of counter t; the cache is created with metrics enabled. *)
From stdpp Require Import gmap.
From Ristretto Require Import Base.Word Cache.Policy Cache.PolicyProofs Cache.Store Cache.Machine Cache.MachineProofs
  Cache.SyncProofs Cache.MetricsProofs Sketch.TinyLFU Cache.Ring Cache.RingProofs Cache.MetricStripes.
From Coq Require Import Permutation.
Local Open Scope Z_scope.

(* For every schedule (any number of threads, evictions, overwrites raising or lowering costs, expiries,
   rejections, Clear), at every quiescent state: *)

(* Hits + Misses = number of Get calls (returns) since creation or the last Clear, on an open cache *)
Theorem C17_hits_misses : forall c maxCost bdur now0 sched,
  let s := mrun c (init_state maxCost bdur now0 true) sched in
  s_closed s = false ->
  eq64 (mz (s_met s) MHit + mz (s_met s) MMiss) (count is_get_ret (since_clear (s_log s))).
Proof. intros c maxCost bdur now0 sched s. exact (mi_gets _ (mv_met _ (reachable_minv c maxCost bdur now0 sched))). Qed.

(* KeysAdded - KeysEvicted = number of keys the accounting holds (= resident keys, by C13) *)
Theorem C17_keys : forall c maxCost bdur now0 sched,
  let s := mrun c (init_state maxCost bdur now0 true) sched in
  quiescent s ->
  eq64 (mz (s_met s) MKeyAdd - mz (s_met s) MKeyEvict) (Z.of_nat (size (p_costs (s_pol s)))).
Proof.
  intros c maxCost bdur now0 sched s Hq.
  pose proof (mi_keys _ (mv_met _ (reachable_minv c maxCost bdur now0 sched)) (quiescent_no_window _ Hq)) as H.
  fold s in H. destruct Hq as (_ & Ha & _). rewrite Ha in H. simpl in H. unfold KQ in H.
  replace (Z.of_nat (size (p_costs (s_pol s))))
    with ((mz (s_met s) MKeyEvict + Z.of_nat (size (p_costs (s_pol s)))) - mz (s_met s) MKeyEvict) by lia.
  apply eq64_sub; [|apply eq64_refl]. rewrite Z.add_0_r in H. exact H.
Qed.

(* CostAdded - CostEvicted = used = MaxCost - RemainingCost() *)
Theorem C17_cost : forall c maxCost bdur now0 sched,
  let s := mrun c (init_state maxCost bdur now0 true) sched in
  quiescent s ->
  eq64 (mz (s_met s) MCostAdd - mz (s_met s) MCostEvict) (p_max (s_pol s) - pol_cap (s_pol s)).
Proof.
  intros c maxCost bdur now0 sched s Hq.
  pose proof (mi_cost _ (mv_met _ (reachable_minv c maxCost bdur now0 sched)) (quiescent_no_window _ Hq)) as H.
  fold s in H. unfold CQ in H. unfold pol_cap.
  replace (p_max (s_pol s) - (p_max (s_pol s) - p_used (s_pol s))) with (0 + p_used (s_pol s)) by lia.
  replace (mz (s_met s) MCostAdd - mz (s_met s) MCostEvict)
    with ((mz (s_met s) MCostAdd - mz (s_met s) MCostEvict - p_used (s_pol s)) + p_used (s_pol s)) by lia.
  apply eq64_add; [exact H|apply eq64_refl].
Qed.

(* SetsDropped = number of Sets (with a non-negative ttl, on an open cache) that returned false, i.e. new-key
   Sets refused because the write buffer was full, since creation or the last Clear *)
Theorem C17_drops : forall c maxCost bdur now0 sched,
  let s := mrun c (init_state maxCost bdur now0 true) sched in
  s_closed s = false ->
  eq64 (mz (s_met s) MDropSets) (count is_drop_ret (since_clear (s_log s))).
Proof. intros c maxCost bdur now0 sched s. exact (mi_drops _ (mv_met _ (reachable_minv c maxCost bdur now0 sched))). Qed.

(* GetsKept + GetsDropped never exceeds the number of Gets (in every state; no modulus needed) *)
Theorem C17_ring : forall c maxCost bdur now0 sched,
  let s := mrun c (init_state maxCost bdur now0 true) sched in
  mz (s_met s) MKeepGets + mz (s_met s) MDropGets <= count is_get_ret (s_log s).
Proof.
  intros c maxCost bdur now0 sched s.
  pose proof (mi_ring _ (mv_met _ (reachable_minv c maxCost bdur now0 sched))) as H. fold s in H. lia.
Qed.

Definition c17_cfg : cfg :=
  {| c_cap := 4; c_bdur := 5; c_ignore_internal := true; c_item_size := 56; c_should := fun _ _ => true;
     c_costfn := None |}.
Definition c17_sched : list label :=
  [LCall 1 (OSet 7 100 11 60 0); LStep 1; LStep 1; LApp false []; LApp false []; LApp false []; LApp false [];
   LCall 1 (OGet 7 100); LCall 1 (OGet 9 100);
   LCall 1 (OSet 8 200 12 60 0); LStep 1; LStep 1;
   LApp false []; LApp false []; LApp false []; LApp false []; LApp false []; LApp false []; LApp false []].
Example C17_nonvacuous :
  let s := mrun c17_cfg (init_state 100 5 1000 true) c17_sched in
  s_buf s = [] /\ s_apc s = AIdle /\ s_apend s = [] /\
  List.map (fun t => m_get (s_met s) t) [MHit; MMiss; MKeyAdd; MKeyEvict; MCostAdd; MCostEvict] = [1; 1; 2; 1; 120; 60]%N.
Proof. vm_compute. repeat split. Qed.

(* ---- The Get ring buffer written out (Cache/Ring.v: ring.go's ringStripe.Push and sync.Pool of stripes,
   policy.go's defaultPolicy.Push with its non-blocking send and keepGets / dropGets, processItems' receipt).
   The machine above abstracts it to the environment step [LGets kept n]; these theorems are about the code's own
   algorithm, for every sequence [ops] of pushes (any item, any stripe the pool hands out, new stripes at any time),
   garbage-collected stripes, receipts by the policy goroutine and Close, any BufferItems [capa] (also <= 0) and any
   capacity of itemsCh. ---- *)

(* every recorded Get is accounted for exactly once: kept, or dropped, or forgotten without a counter (closed policy,
   stripe dropped by the GC), or still sitting in a stripe; in particular GetsKept + GetsDropped <= Gets *)
Theorem C17_ring_conservation : forall capa chcap ops,
  let r := ring_run (ring_new capa chcap) ops in
  (N.to_nat (r_kept r) + N.to_nat (r_dropped r) + length (r_lostl r) + undecided r = length (r_pushed r))%nat /\
  (r_kept r + r_dropped r <= N.of_nat (length (r_pushed r)))%N.
Proof. intros capa chcap ops r. split; [exact (ring_conservation capa chcap ops)|exact (ring_kept_dropped_le capa chcap ops)]. Qed.

(* the counters are exact: GetsKept = number of keys in the batches handed to the policy, GetsDropped = number of keys
   in the batches refused because itemsCh was full; and as multisets the pushed keys are exactly the applied, queued,
   dropped, forgotten and still-buffered ones (nothing duplicated, nothing invented) *)
Theorem C17_ring_exact : forall capa chcap ops,
  let r := ring_run (ring_new capa chcap) ops in
  r_kept r = N.of_nat (length (concat (r_recv r ++ r_ch r))) /\ r_dropped r = N.of_nat (length (r_dropl r)) /\
  Permutation (r_pushed r) (concat (r_recv r) ++ concat (r_ch r) ++ r_dropl r ++ r_lostl r ++ concat (r_stripes r)).
Proof.
  intros capa chcap ops r. destruct (ring_counters_exact capa chcap ops) as [A B].
  split; [exact A|split; [exact B|exact (ring_permutation capa chcap ops)]].
Qed.

(* every batch has exactly max(BufferItems,1) keys, no stripe ever holds that many after a Push returns, and itemsCh
   never exceeds its capacity (the send is non-blocking) *)
Theorem C17_ring_batches : forall capa chcap ops,
  let r := ring_run (ring_new capa chcap) ops in
  Forall (fun b => Z.of_nat (length b) = Z.max capa 1) (r_recv r ++ r_ch r) /\
  Forall (fun d => Z.of_nat (length d) < Z.max capa 1) (r_stripes r) /\
  (length (r_ch r) <= chcap)%nat.
Proof. exact ring_batches. Qed.

(* the admission sketch is told of a key at most as often as the key was read, and what the policy goroutine has done
   to it is tinyLFU.Push of the received batches in order *)
Theorem C17_ring_no_invented_access : forall capa chcap ops k t0,
  let r := ring_run (ring_new capa chcap) ops in
  (cnt k (concat (r_recv r)) + cnt k (concat (r_ch r)) <= cnt k (r_pushed r))%nat /\
  ring_tl t0 r = tl_push t0 (concat (r_recv r)).
Proof. intros capa chcap ops k t0 r. split; [exact (ring_no_invented_access capa chcap ops k)|exact (ring_applied t0 r)]. Qed.

(* each step of the ring is an instance of what the machine's [LGets] allows: one more undecided Get, or exactly one
   counter raised by the size of a batch that is no larger than the undecided Gets (including the one just recorded) *)
Theorem C17_ring_refines_LGets : forall capa chcap ops o,
  let r := ring_run (ring_new capa chcap) ops in
  let r' := fst (ring_step r o) in
  match snd (ring_step r o) with
  | OStored _ => undecided r' = S (undecided r) /\ r_kept r' = r_kept r /\ r_dropped r' = r_dropped r
  | ODrain keys v =>
      (length keys <= S (undecided r))%nat /\ (undecided r' + length keys = S (undecided r))%nat /\
      match v with
      | VKept => r_kept r' = (r_kept r + N.of_nat (length keys))%N /\ r_dropped r' = r_dropped r
      | VDropped => r_kept r' = r_kept r /\ r_dropped r' = (r_dropped r + N.of_nat (length keys))%N
      | VClosed => r_kept r' = r_kept r /\ r_dropped r' = r_dropped r
      end
  | _ => (undecided r' <= undecided r)%nat /\ r_kept r' = r_kept r /\ r_dropped r' = r_dropped r
  end.
Proof. intros capa chcap ops o r. exact (ring_refines_lgets r o (reachable_rinv capa chcap ops)). Qed.

(* two stripes of capacity 2, a channel of capacity 1: one batch kept, one dropped, one received, one key left *)
Example C17_ring_nonvacuous :
  let r := ring_run (ring_new 2 1)
             [RPush 0 5; RPush 1 6; RPush 0 7; RPush 1 8; RRecv; RPush 0 9]%N in
  (r_kept r, r_dropped r, r_recv r, r_ch r, r_dropl r, r_stripes r) = (2, 2, [[5; 7]], [], [6; 8], [[9]; []])%N.
Proof. vm_compute. reflexivity. Qed.

(* ---- The striped counters written out (Cache/MetricStripes.v: Metrics.add picks slot (hash % 25) * 10 of 256 and
   adds with wrap-around, Metrics.get sums the 256 slots with wrap-around).  The machine's metrics (Policy.v: m_add)
   are one uint64 per counter; these theorems are the refinement: for any hashes whatsoever, add never indexes out of
   range and get reads the wrapped sum of the deltas. ---- *)
Theorem C17_stripes_one_add : forall s hash delta, length s = ms_slots ->
  exists s', ms_add s hash delta = Some s' /\ length s' = ms_slots /\ ms_get s' = add64 (ms_get s) delta.
Proof.
  intros s hash delta Hl. destruct (ms_add_total s hash delta Hl) as (s' & H & Hl').
  exists s'. repeat split; auto. exact (ms_get_add _ _ _ _ H).
Qed.

Theorem C17_stripes_sum : forall adds,
  exists s', ms_run ms_new adds = Some s' /\ ms_get s' = u64 (sumN (List.map snd adds)).
Proof.
  intros adds. destruct (ms_run_spec adds ms_new ms_new_len) as (s' & H & _ & Hg).
  exists s'. split; [exact H|]. rewrite Hg, ms_new_get. reflexivity.
Qed.

Example C17_stripes_nonvacuous :
  option_map ms_get (ms_run ms_new [(24, 18446744073709551615); (49, 3); (7, 5)]%N) = Some 7%N.
Proof. vm_compute. reflexivity. Qed.

Print Assumptions C17_hits_misses.
Print Assumptions C17_keys.
Print Assumptions C17_cost.
Print Assumptions C17_ring.
Print Assumptions C17_drops.
Print Assumptions C17_ring_conservation.
Print Assumptions C17_ring_exact.
Print Assumptions C17_ring_batches.
Print Assumptions C17_ring_no_invented_access.
Print Assumptions C17_ring_refines_LGets.
Print Assumptions C17_stripes_one_add.
Print Assumptions C17_stripes_sum.
