(* C05 — a completed Del wins over every earlier Set once writes have drained.  Statements only. *)
From stdpp Require Import gmap.
From Ristretto Require Import Base.Word Cache.Policy Cache.Store Cache.Machine Cache.MachineProofs Cache.SyncProofs
  Cache.DelProofs.
Local Open Scope Z_scope.

(* For every number of goroutines and every schedule (= every lag of the applier between any two steps, every
   concurrent activity on other keys, sweeps, clock advances, UpdateMaxCost ...):
     s0  any state reachable without Clear/Close in which Del(k,c) is about to send its tombstone and no Set of k
         is in flight (Sets of k that have returned may be buffered, half applied or applied in any number);
     s1  Del has sent it (it returns with its next step);  sched1: anything but a Set of k / Clear / Close;
     s2  a goroutine is about to send the marker of a Wait;  s3: sent;  sched2: anything but a Set of k / Clear / Close;
     s4  that Wait has returned
   then Get(k,c) misses in s4 — and since s4 is any such state, it keeps missing until a Set of k is issued.
   A key is identified by its 64-bit hash k: a Set of another key with the same hash counts as a Set of k. *)
Theorem C05_del_wins : forall cf maxCost bdur now0 mon k c sched0 td o sched1 tw ow sched2 tg s1 s3 s5,
  Forall lab_nc sched0 ->
  let s0 := mrun cf (init_state maxCost bdur now0 mon) sched0 in
  (forall tid t i, s_threads s0 !! tid = Some t -> t_pc t = CSetUpd i \/ t_pc t = CSetSend i -> it_key i <> k) ->
  t_op (get_thread s0 td) = Some o -> t_pend (get_thread s0 td) = [] -> t_pc (get_thread s0 td) = CDelSend k c ->
  mstep cf s0 (LStep td) = Some s1 ->
  Forall (lab_ok k) sched1 ->
  let s2 := mrun cf s1 sched1 in
  t_op (get_thread s2 tw) = Some ow -> t_pend (get_thread s2 tw) = [] -> t_pc (get_thread s2 tw) = CWaitSend ->
  mstep cf s2 (LStep tw) = Some s3 ->
  Forall (lab_ok k) sched2 ->
  let s4 := mrun cf s3 sched2 in
  t_op (get_thread s4 tw) = None ->
  mstep cf s4 (LCall tg (OGet k c)) = Some s5 ->
  s_log s5 = ERet tg (OGet k c) (RVal 0%N false) :: ECall tg (OGet k c) (s_now s4) :: s_log s4.
Proof. exact del_wins. Qed.

(* the invariant behind it, usable on its own: from Del's tombstone on, "the last word on k in the applier's hands
   and the write buffer is the tombstone, or k is not retrievable" holds in every state until a Set of k *)
Theorem C05_tombstone_invariant : forall k c cf s l s', lab_ok k l -> D k c s -> mstep cf s l = Some s' -> D k c s'.
Proof. exact step_D. Qed.

(* The deleted value is released through OnExit: Del's removal step takes the entry out of the map and queues
   OnExit(value) on the deleting goroutine, which delivers it before doing anything else. *)
Theorem C05_del_releases : forall cf s td o k c it s',
  s_panic s = false ->
  t_op (get_thread s td) = Some o -> t_pend (get_thread s td) = [] -> t_pc (get_thread s td) = CDelStore k c ->
  s_store s !! k = Some it -> conf_ok c (si_conf it) = true ->
  mstep cf s (LStep td) = Some s' ->
  s_store s' !! k = None /\ t_pc (get_thread s' td) = CDelSend k c /\ t_pend (get_thread s' td) = [CbExit (si_val it)].
Proof. exact del_releases. Qed.
Theorem C05_callback_first : forall cf s tid o cbk rest s',
  s_panic s = false -> t_op (get_thread s tid) = Some o -> t_pend (get_thread s tid) = cbk :: rest ->
  mstep cf s (LStep tid) = Some s' ->
  s_log s' = ECb (Some tid) cbk :: s_log s /\ t_pend (get_thread s' tid) = rest /\
  t_pc (get_thread s' tid) = t_pc (get_thread s tid).
Proof. exact pending_callback_first. Qed.

(* non-vacuity: two Sets of key 7 are buffered (the applier lags), Del(7) runs, then Wait; the applier then applies
   both inserts (the first is admitted and stored: the key is resurrected), the tombstone and the marker.  All the
   hypotheses of C05_del_wins hold along this schedule and the final Get misses. *)
Example C05_nonvacuous :
  let cf := {| c_cap := 8; c_bdur := 5; c_ignore_internal := true; c_item_size := 0; c_should := fun _ _ => true;
               c_costfn := None |} in
  let sched0 := [LCall 1 (OSet 7 70 101 5 0); LStep 1; LStep 1; LCall 1 (OSet 7 70 102 5 0); LStep 1; LStep 1;
                 LCall 2 (ODel 7 70); LStep 2; LStep 2] in
  let s0 := mrun cf (init_state 100 5 1000 true) sched0 in
  let s1 := mrun cf s0 [LStep 2] in
  let sched1 := [LApp false []; LApp false []; LApp false []; LCall 3 OWait] in
  let s2 := mrun cf s1 sched1 in
  let s3 := mrun cf s2 [LStep 3] in
  let sched2 := [LApp false []; LApp false []; LApp false []; LApp false []; LApp false []; LApp false [];
                 LApp false []; LApp false []; LApp false []; LApp false []; LApp false []; LApp false [];
                 LApp false []; LApp false []; LStep 3] in
  let s4 := mrun cf s3 sched2 in
  t_pc (get_thread s0 2) = CDelSend 7 70 /\ length (s_buf s0) = 2%nat /\
  (exists it, s_store s2 !! 7%N = Some it /\ si_val it = 101%N) /\          (* resurrected while the tombstone waits *)
  t_pc (get_thread s2 3) = CWaitSend /\ t_op (get_thread s4 3) = None /\
  s_store s4 !! 7%N = None /\
  store_get (s_store s4) (s_now s4) 7 70 = (0%N, false).
Proof. vm_compute. repeat split; try reflexivity. eexists; split; reflexivity. Qed.
