(* C10 — z.Tree is a correct uint64 map with an exact DeleteBelow.  Statements only. (placeholder while the proofs are built) *)
From Ristretto Require Import Base.Word Tree.Node Tree.Tree.
Open Scope N_scope.
Example C10_nonvacuous : exists st, tree_new_mem 4 80 = Some st /\ tree_get st 5 = 0.
Proof. eexists; split; vm_compute; reflexivity. Qed.
