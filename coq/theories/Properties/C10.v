(* C10 — z.Tree is a correct uint64 map with an exact DeleteBelow.  Statements only.

   Model: Tree/Node.v, Tree/Tree.v (the code of z/btree.go function by function on page-id-labelled nodes; maxKeys M
   and pageSize ps are parameters).  The abstract map of a tree is [abs_st st : N -> N], key -> value with 0 = absent
   (the code's own convention: Get returns 0 for a missing key), read off the leaf entries in key order.
   [WFt M st]: nodes sorted, routing bounds (child i holds the keys in (key(i-1), key(i)]), every node non-empty with
   at most M-1 entries between operations, last key of a node = its bound, rightmost bound 2^64-2, and the ghost
   [depth] bounds the height (the fuel of the recursive functions, so fuel exhaustion is excluded).
   All statements are for every M >= 4 (page sizes 80 ...), every page size, every key in [1, 2^64-2]. *)
From Ristretto Require Import Base.Word Tree.Node Tree.NodeProofs Tree.Tree Tree.TreeProofs.
Open Scope N_scope.

(* NewTree / NewTreePersistent on a new file / Reset: a well-formed empty map *)
Theorem C10_new : forall M ps, (4 <= M)%nat ->
  exists st, tree_new_mem M ps = Some st /\ WFt M st /\ forall k, abs_st st k = 0.
Proof. intros M ps HM. exact (tree_new_mem_spec M HM ps). Qed.

Theorem C10_new_file : forall M ps, (4 <= M)%nat ->
  exists st, tree_new_file M ps = Some st /\ WFt M st /\ forall k, abs_st st k = 0.
Proof. intros M ps HM. exact (tree_new_file_spec M HM ps). Qed.

Theorem C10_reset : forall M ps st, (4 <= M)%nat ->
  exists st', tree_reset M ps st = Some st' /\ WFt M st' /\ forall k, abs_st st' k = 0.
Proof. intros M ps st HM. exact (tree_reset_spec M HM ps st). Qed.

(* Get(k) is the abstract map: the value most recently set, or 0 *)
Theorem C10_get : forall M st k, (4 <= M)%nat -> WFt M st -> valid_key k -> tree_get st k = abs_st st k.
Proof. intros M st k HM. eapply tree_get_spec; eauto. Qed.

(* Set never panics on a legal key, keeps the tree well-formed across leaf, internal and root splits, and updates
   exactly the key k *)
Theorem C10_set : forall M ps st k v, (4 <= M)%nat -> WFt M st -> valid_key k ->
  exists st', tree_set M ps st k v = Some st' /\ WFt M st' /\
              forall k', abs_st st' k' = if k' =? k then v else abs_st st k'.
Proof. intros M ps st k v HM. exact (tree_set_spec M HM ps st k v). Qed.

(* DeleteBelow(ts) removes exactly the keys whose value is below ts and changes nothing else *)
Theorem C10_delete_below : forall M st ts, (4 <= M)%nat -> WFt M st ->
  exists st', tree_delete_below st ts = Some st' /\ WFt M st' /\
              forall k, abs_st st' k = if abs_st st k <? ts then 0 else abs_st st k.
Proof. intros M st ts HM. eapply tree_delete_below_spec; eauto. Qed.

(* IterateKV visits every live pair exactly once, in key order (strictly increasing keys: no duplicates), passes no
   dead pair, and rewrites exactly the visited pairs for which the callback returns a non-zero value *)
Theorem C10_iterate : forall M st fn, (4 <= M)%nat -> WFt M st ->
  let vis := fst (tree_iterate st fn) in let st' := snd (tree_iterate st fn) in
  WFt M st' /\
  (forall k, abs_st st' k = let v := abs_st st k in if v =? 0 then 0 else if fn k v =? 0 then v else fn k v) /\
  ksorted 0 vis /\ (forall k v, In (k, v) vis <-> (abs_st st k = v /\ v <> 0)).
Proof. intros M st fn HM. eapply tree_iterate_spec; eauto. Qed.

(* every history: Get on the model = Get on the reference map *)
Theorem C10_history : forall M ps ops k, (4 <= M)%nat -> Forall op_ok ops -> valid_key k ->
  exists st0 st, tree_new_mem M ps = Some st0 /\ run M ps ops st0 = Some st /\ WFt M st /\
                 tree_get st k = ref_run ops (fun _ => 0) k.
Proof.
  intros M ps ops k HM Hok Hk.
  destruct (tree_new_mem_spec M HM ps) as (st0 & H0 & Hwf0 & Habs0).
  destruct (history_spec M HM ps ops st0 (fun _ => 0) Hwf0 Habs0 Hok) as (st & Hr & Hwf & Habs).
  exists st0, st. repeat split; auto; try apply Hwf. rewrite (tree_get_spec M HM st k Hwf Hk). apply Habs.
Qed.

(* the same for persistent trees (new file) *)
Theorem C10_history_file : forall M ps ops k, (4 <= M)%nat -> Forall op_ok ops -> valid_key k ->
  exists st0 st, tree_new_file M ps = Some st0 /\ run M ps ops st0 = Some st /\ WFt M st /\
                 tree_get st k = ref_run ops (fun _ => 0) k.
Proof.
  intros M ps ops k HM Hok Hk.
  destruct (tree_new_file_spec M HM ps) as (st0 & H0 & Hwf0 & Habs0).
  destruct (history_spec M HM ps ops st0 (fun _ => 0) Hwf0 Habs0 Hok) as (st & Hr & Hwf & Habs).
  exists st0, st. repeat split; auto; try apply Hwf. rewrite (tree_get_spec M HM st k Hwf Hk). apply Habs.
Qed.

(* page accounting, for every history (in-memory or new file) and every page size up to 1 MiB - 8: the page ids handed
   out are never live twice -- the pages of the tree and the free list are duplicate-free and together are exactly
   the ids 1 .. nextPage-1 (nothing leaks, nothing is both live and free) -- and the statistics are exact:
   NumLeafKeys = number of leaf entries (placeholders included), NumPagesFree = length of the free list *)
Theorem C10_pages_unique : forall M ps ops, (4 <= M)%nat -> ps <= 1048568 -> Forall op_ok ops ->
  exists st0 st, tree_new_mem M ps = Some st0 /\ run M ps ops st0 = Some st /\
    NoDup (pids (root st) ++ freeList (al st)) /\
    (forall p, In p (pids (root st) ++ freeList (al st)) <-> 1 <= p < nextPage (al st)) /\
    stat_leaf_keys st = Z.of_nat (length (entries (root st))) /\
    stat_pages_free st = Z.of_nat (length (freeList (al st))).
Proof.
  intros M ps ops HM Hps Hok.
  destruct (new_mem_wf M HM ps Hps) as (st0 & H0 & Hwf0).
  destruct (history_wf M HM ps ops Hps st0 Hwf0 Hok) as (st & Hr & [_ Hwa]).
  exists st0, st. split; [exact H0|]. split; [exact Hr|]. exact (wfa_pages M HM ps st Hwa).
Qed.

(* a concrete non-trivial state meeting the hypotheses: page size 80 (M = 4), 20 inserts (17 splits, 3 root splits),
   overwrites, a DeleteBelow that frees pages, re-inserts that recycle them *)
Definition c10_ops : list op :=
  map (fun i => OSet (N.of_nat i) (100 + N.of_nat i)) (seq 1 20) ++
  map (fun i => OSet (N.of_nat i) 5) (seq 1 6) ++ [ODeleteBelow 50] ++
  map (fun i => OSet (N.of_nat i) 7) [30; 31]%nat.
Example C10_nonvacuous :
  exists st0 st, tree_new_mem 4 80 = Some st0 /\ run 4 80 c10_ops st0 = Some st /\ WFt 4 st /\
                 nextPage (al st) = 19 /\ depth st = 3%nat /\ pagesFree (al st) = 1%Z /\
                 tree_get st 2 = 0 /\ tree_get st 7 = 107 /\ tree_get st 31 = 7.
Proof.
  assert (HM : (4 <= 4)%nat) by constructor.
  destruct (tree_new_mem_spec 4 HM 80) as (st0 & H0 & Hwf0 & Habs0).
  assert (Hok : Forall op_ok c10_ops).
  { apply Forall_forall. intros o Ho. unfold c10_ops in Ho. repeat (apply in_app_or in Ho; destruct Ho as [Ho|Ho]);
      try (apply in_map_iff in Ho; destruct Ho as (i & <- & Hi); apply in_seq in Hi || cbn in Hi;
           cbn; unfold valid_key, absolute_max; lia); cbn in Ho; intuition (subst; cbn; auto).
    all: unfold valid_key, absolute_max; lia. }
  destruct (history_spec 4 HM 80 c10_ops st0 (fun _ => 0) Hwf0 Habs0 Hok) as (st & Hr & Hwf & _).
  exists st0, st. split; [exact H0|]. split; [exact Hr|]. split; [exact Hwf|].
  vm_compute in H0. injection H0 as <-. vm_compute in Hr. injection Hr as <-.
  repeat split; vm_compute; reflexivity.
Qed.

Print Assumptions C10_history.
Print Assumptions C10_set.
Print Assumptions C10_delete_below.
Print Assumptions C10_iterate.
Print Assumptions C10_pages_unique.
Print Assumptions C10_nonvacuous.
