(* C02 — A value the cache has let go of is never served again.  Statements only.
   Hypothesis on schedules: every Set call carries its own value (NoDup (set_vals sched)); 0 is Go's zero value,
   which the code passes to callbacks for absent keys, and is ignored. *)
From stdpp Require Import gmap.
From Ristretto Require Import Base.Word Cache.Policy Cache.Store Cache.Machine Cache.MachineProofs Cache.SyncProofs
  Cache.OwnProofs.
Local Open Scope nat_scope.

(* For every schedule — any number of threads, every interleaving of client calls with the applier, the sweep and
   Clear/Close: a Get that returns v is not preceded (in time) by an OnExit of v.  (The log is newest-first:
   l2 holds what happened before the return.) *)
Theorem C02_no_resurrection : forall c maxCost bdur now0 mon sched l1 l2 tid k cf v w,
  List.NoDup (set_vals sched) -> v <> 0%N ->
  s_log (mrun c (init_state maxCost bdur now0 mon) sched) = l1 ++ ERet tid (OGet k cf) (RVal v true) :: l2 ->
  ~ In (ECb w (CbExit v)) l2.
Proof.
  intros c maxCost bdur now0 mon sched l1 l2 tid k cf v w Hnd Hv Hlog.
  pose proof (run_log_own c maxCost bdur now0 mon sched Hnd) as H. rewrite Hlog in H.
  apply log_own_split in H. simpl in H. apply cnt_log_zero. auto.
Qed.

(* In every reachable state every non-zero value lives in at most one place: the map, the write buffer (as a new
   item), a program counter, a pending OnExit, or the delivered OnExits. *)
Theorem C02_one_place : forall c maxCost bdur now0 mon sched v,
  List.NoDup (set_vals sched) -> v <> 0%N ->
  occ (mrun c (init_state maxCost bdur now0 mon) sched) v <= 1.
Proof. intros. now apply occ_le_one. Qed.

(* Hence a value that has exited, or whose OnExit is pending (e.g. the older value right after the Update step
   of an overwrite), is not in the map — and, being in one place only, can never come back. *)
Theorem C02_gone : forall c maxCost bdur now0 mon sched v k it,
  List.NoDup (set_vals sched) -> v <> 0%N ->
  let s := mrun c (init_state maxCost bdur now0 mon) sched in
  1 <= cnt_log (s_log s) v + cnt_pend (s_apend s) v + cnt_threads (s_threads s) v ->
  s_store s !! k = Some it -> si_val it <> v.
Proof.
  intros c maxCost bdur now0 mon sched v k it Hnd Hv s Hex Hl Heq.
  pose proof (occ_le_one c maxCost bdur now0 mon sched v Hv Hnd) as Ho. fold s in Ho. unfold occ in Ho.
  pose proof (cnt_store_lookup _ _ _ Hl) as Hc. rewrite Heq in Hc. lia.
Qed.

Definition c02_cfg : cfg :=
  {| c_cap := 4; c_bdur := 5; c_ignore_internal := true; c_item_size := 56; c_should := fun _ _ => true;
     c_costfn := None |}.
Definition c02_sched : list label :=
  [LCall 1 (OSet 7 100 11 5 0); LStep 1; LStep 1; LApp false []; LApp false []; LApp false []; LApp false [];
   LCall 2 (OGet 7 100); LCall 1 (OSet 7 100 12 5 0); LStep 1; LCall 2 (OGet 7 100); LStep 1; LCall 2 (OGet 7 100)].
Example C02_nonvacuous :
  List.NoDup (set_vals c02_sched) /\
  exists rest, s_log (mrun c02_cfg (init_state 100 5 1000 true) c02_sched) =
    ERet 2 (OGet 7 100) (RVal 12 true) :: ECall 2 (OGet 7 100) 1000 :: ECb (Some 1%nat) (CbExit 11) ::
    ERet 2 (OGet 7 100) (RVal 12 true) :: rest.
Proof. split; [repeat constructor; simpl; intuition discriminate|]. vm_compute. eauto. Qed.

Print Assumptions C02_no_resurrection.
Print Assumptions C02_one_place.
