(* C15 — Close and Clear leave a consistent cache: inert after Close, fresh after Clear.  Statements only. *)
From stdpp Require Import gmap.
From Ristretto Require Import Base.Word Cache.Policy Cache.PolicyProofs Cache.Store Cache.Machine Cache.MachineProofs
  Cache.SyncProofs Cache.MetricsProofs Cache.ClearProofs.
Local Open Scope Z_scope.

(* --- after Close ---------------------------------------------------------------------------------------- *)
(* closed is permanent, for every schedule *)
Theorem C15_closed_stable : forall c s l s', s_closed s = true -> mstep c s l = Some s' -> s_closed s' = true.
Proof. exact closed_stable. Qed.

(* on a closed cache Set returns false, Get misses, Del / Wait / Clear / Close / IterValues return at once, and the
   call changes nothing but the ghost log — for any sequence and repetition (closed is stable) *)
Theorem C15_inert : forall c s tid o r s', s_closed s = true -> inert_result o = Some r ->
  mstep c s (LCall tid o) = Some s' ->
  s_log s' = ERet tid o r :: ECall tid o (s_now s) :: s_log s /\
  s_store s' = s_store s /\ s_em s' = s_em s /\ s_pol s' = s_pol s /\ s_met s' = s_met s /\
  s_buf s' = s_buf s /\ s_apc s' = s_apc s /\ s_markers s' = s_markers s /\ s_closed s' = true /\
  t_op (get_thread s' tid) = None.
Proof. exact closed_inert. Qed.

(* when Close returns: closed, channels closed, the applier goroutine has exited and holds no callback *)
Theorem C15_close_returns : forall c s tid o cl s',
  t_op (get_thread s tid) = Some o -> t_pend (get_thread s tid) = [] ->
  t_pc (get_thread s tid) = CClr ClsStop cl -> s_chan_closed s = false -> mstep c s (LStep tid) = Some s' ->
  s_closed s' = true /\ s_chan_closed s' = true /\ s_apc s' = AExited /\ s_apend s' = [] /\
  s_panic s' = false /\ s_log s' = ERet tid o RUnit :: s_log s.
Proof. exact close_return_step. Qed.

(* --- after Clear ---------------------------------------------------------------------------------------- *)
(* For every schedule (other goroutines may run concurrently): at the step with which Clear returns the map is
   empty, nothing is accounted, RemainingCost = MaxCost, and the applier has been restarted and is idle. *)
Theorem C15_clear_returns : forall c maxCost bdur now0 mon sched tid s',
  let s := mrun c (init_state maxCost bdur now0 mon) sched in
  t_op (get_thread s tid) = Some OClear -> t_pend (get_thread s tid) = [] ->
  t_pc (get_thread s tid) = CClr ClrRestart false -> mstep c s (LStep tid) = Some s' ->
  s_store s' = ∅ /\ p_costs (s_pol s') = ∅ /\ pol_cap (s_pol s') = p_max (s_pol s') /\
  s_apc s' = AIdle /\ s_apend s' = [] /\ s_closed s' = s_closed s /\
  s_log s' = ERet tid OClear RUnit :: s_log s /\ t_op (get_thread s' tid) = None.
Proof.
  intros c maxCost bdur now0 mon sched tid s' s. apply clear_return_step. apply reachable_clear_invs.
Qed.

(* between policy.Clear / store.Clear and the restart nothing can refill them, whatever other goroutines do *)
Theorem C15_stays_empty : forall c maxCost bdur now0 mon sched,
  let s := mrun c (init_state maxCost bdur now0 mon) sched in
  ((exists tid, stage_P (th_pc (s_threads s) tid)) -> p_costs (s_pol s) = ∅ /\ p_used (s_pol s) = 0) /\
  ((exists tid, stage_S (th_pc (s_threads s) tid)) -> s_store s = ∅).
Proof.
  intros c maxCost bdur now0 mon sched s.
  destruct (reachable_clear_invs c maxCost bdur now0 mon sched) as [_ H1 H2]. split; assumption.
Qed.

(* the drain releases goroutines blocked in Wait: a drained marker is closed, and a waiter on a closed marker returns *)
Theorem C15_drain_releases : forall c s tid o cl i rest id s',
  t_op (get_thread s tid) = Some o -> t_pend (get_thread s tid) = [] ->
  t_pc (get_thread s tid) = CClr ClrDrain cl -> s_buf s = i :: rest -> it_wait i = Some id ->
  s_panic s = false -> mstep c s (LStep tid) = Some s' -> id ∈ s_markers s' /\ s_buf s' = rest.
Proof. exact drain_marker_step. Qed.

Theorem C15_waiter_returns : forall c s tid o id,
  t_op (get_thread s tid) = Some o -> t_pend (get_thread s tid) = [] ->
  t_pc (get_thread s tid) = CWaitBlock id -> id ∈ s_markers s -> s_panic s = false ->
  exists s', mstep c s (LStep tid) = Some s' /\ s_log s' = ERet tid o RUnit :: s_log s.
Proof. exact wait_released_step. Qed.

(* metrics are reset by Clear (C17: the counters restart from the ghost EMClear event) and "serves new writes as a
   fresh one would" is what the correspondence checks by replaying fresh-cache scripts after Clear; that the values
   held or buffered are released is the conservation half of C04 (partial there). *)

Definition c15_cfg : cfg :=
  {| c_cap := 4; c_bdur := 5; c_ignore_internal := true; c_item_size := 56; c_should := fun _ _ => true;
     c_costfn := None |}.
Definition c15_sched : list label :=
  [LCall 1 (OSet 7 100 11 60 0); LStep 1; LStep 1; LApp false []; LApp false []; LApp false []; LApp false [];
   LCall 1 (OSet 8 200 12 10 0); LStep 1; LStep 1;
   LCall 2 OWait; LStep 2;
   LCall 3 OClear; LStep 3; LStep 3; LStep 3; LStep 3; LStep 3; LStep 3; LStep 3; LStep 3; LStep 3; LStep 3; LStep 3; LStep 3; LStep 3;
   LStep 2; LCall 3 OClose; LStep 3; LStep 3; LStep 3; LStep 3; LStep 3; LStep 3; LStep 3; LStep 3;
   LCall 1 (OSet 9 300 13 10 0); LCall 1 (OGet 7 100)].
Example C15_nonvacuous :
  let s := mrun c15_cfg (init_state 100 5 1000 true) c15_sched in
  s_closed s = true /\ s_apc s = AExited /\ map_to_list (s_store s) = [] /\
  exists rest, s_log s = ERet 1 (OGet 7 100) (RVal 0 false) :: ECall 1 (OGet 7 100) 1000 ::
                         ERet 1 (OSet 9 300 13 10 0) (RBool false) :: rest.
Proof. vm_compute. repeat split. eauto. Qed.

Print Assumptions C15_inert.
Print Assumptions C15_clear_returns.
Print Assumptions C15_stays_empty.
