(* C09 — Admission and eviction follow the TinyLFU / sampled-LFU discipline.  Statements only.
   pol_add is defaultPolicy.Add; [orders] is, for every refill of the sample, an arbitrary enumeration of the
   key-cost map (Go's map iteration order); [est] is an arbitrary access-frequency assignment. *)
From stdpp Require Import gmap.
From Ristretto Require Import Base.Word Cache.Policy Cache.PolicyProofs.
Local Open Scope Z_scope.

(* A new item that fits in the remaining capacity is always admitted, evicting nothing, changing nothing else. *)
Theorem C09_fits_no_eviction : forall orders est p m key cost,
  cost <= p_max p -> p_costs p !! key = None -> p_used p + cost <= p_max p ->
  pol_add orders est p m key cost =
    AddOk [] true (pol_insert p key cost) (m_add m MCostAdd (z2u64 cost)) [] None.
Proof. exact pol_add_fits. Qed.

(* Whatever the outcome: every victim was one of the (at most five) sampled candidates of its round, all of
   which were accounted when the call started; it had the smallest estimate of that sample, no greater than the
   newcomer's.  The newcomer is turned away only if it is larger than the whole cache, or already accounted, or
   its estimate is strictly below the smallest estimate of the sample it was compared with (or there was no
   candidate at all). *)
Theorem C09_discipline : forall orders est p m key cost vs added p' m' rounds rej,
  pol_add orders est p m key cost = AddOk vs added p' m' rounds rej -> pol_ok p ->
  pol_ok p' /\ p_max p' = p_max p /\
  Forall (round_ok est (est key) (p_costs p)) rounds /\ vs = map rd_victim rounds /\
  (added = true ->
     p_costs p !! key = None /\ cost <= p_max p /\ p_used p' <= p_max p' /\
     p_costs p' !! key = Some cost /\ delete key (p_costs p') ⊆ p_costs p) /\
  (added = false ->
     (p_max p < cost /\ p' = p /\ vs = []) \/
     (is_Some (p_costs p !! key) /\ vs = [] /\ p_costs p' = <[key := cost]> (p_costs p)) \/
     (p_costs p !! key = None /\ cost <= p_max p /\ p_costs p' ⊆ p_costs p /\
      exists smp mh, rej = Some (smp, mh) /\
        (smp = [] \/ (est key < mh /\ (exists x, x ∈ smp /\ mh = est x.1) /\ (forall x, x ∈ smp -> mh <= est x.1))) /\
        (length smp <= lfu_sample)%nat /\ (forall x, x ∈ smp -> is_Some (p_costs p !! x.1)))).
Proof. exact pol_add_spec. Qed.

(* The eviction loop always terminates: the fuel of the model (6 * (number of accounted keys + 1) rounds) is never
   exhausted, for every map order, estimate function and state — including the duplicate and stale sample entries
   that fillSample can produce. *)
Theorem C09_terminates : forall orders est p m key cost, pol_add orders est p m key cost <> AddOutOfFuel.
Proof. exact pol_add_terminates. Qed.

(* what [round_ok] says, spelled out *)
Theorem C09_round_ok_meaning : forall est inc dom0 r, round_ok est inc dom0 r ->
  rd_victim r ∈ rd_sample r /\
  (forall x, x ∈ rd_sample r -> est (rd_victim r).1 <= est x.1) /\
  est (rd_victim r).1 <= inc /\ (length (rd_sample r) <= 5)%nat /\
  (forall x, x ∈ rd_sample r -> is_Some (dom0 !! x.1)).
Proof. intros est inc dom0 r (H1 & _ & H3 & H4 & H5 & H6). auto. Qed.

(* Non-vacuity: six residents, the sample cannot hold them all; the coldest sampled ones are evicted. *)
Definition c09_pol : policy :=
  {| p_costs := list_to_map [(1%N, 30); (2%N, 30); (3%N, 30)]; p_used := 90; p_max := 100 |}.
Definition c09_est (k : N) : Z := match k with 1%N => 5 | 2%N => 1 | 3%N => 3 | 9%N => 4 | _ => 0 end.
Example C09_nonvacuous :
  pol_ok c09_pol /\
  exists p' m' rounds, pol_add [] c09_est c09_pol (m_zero false) 9 50 = AddOk [(2%N, 30); (3%N, 30)] true p' m' rounds None.
Proof.
  split; [vm_compute; reflexivity|]. vm_compute. eauto.
Qed.

Print Assumptions C09_fits_no_eviction.
Print Assumptions C09_discipline.
