(* C08 — concurrent use of the public API on an open cache: no panic, no deadlock.  Statements only.
   (Data-race freedom in the sense of the Go memory model is below the grain of the machine: see DESIGN.md.) *)
From stdpp Require Import gmap.
From Ristretto Require Import Base.Word Cache.Policy Cache.PolicyProofs Cache.Store Cache.Machine Cache.MachineProofs
  Cache.SyncProofs Cache.ProtoProofs Cache.ProgressProofs Gen.LockOrder Cache.LockOrder Cache.RingOwn.
Local Open Scope Z_scope.

(* For every number of goroutines and every schedule of the listed calls (everything but Close): no send on /
   close of a closed channel — the only panics the protocol can produce — ever happens, the cache stays open. *)
Theorem C08_no_panic : forall c maxCost bdur now0 mon sched, Forall label_noclose sched ->
  let s := mrun c (init_state maxCost bdur now0 mon) sched in
  s_panic s = false /\ s_chan_closed s = false /\ s_closed s = false.
Proof.
  intros c maxCost bdur now0 mon sched HL s.
  destruct (reachable_proto c maxCost bdur now0 mon sched HL) as [_ Hp]. destruct (pi_open _ Hp) as (?&?&?). auto.
Qed.

(* No global deadlock: in every reachable state in which some goroutine is inside a call, or a write is buffered, or
   the applier is in the middle of an item, some goroutine can take its next step — Wait racing Clear's drain, Del
   blocked on a full buffer while the applier is stopped, two overlapping Clears included. *)
Theorem C08_no_deadlock : forall c maxCost bdur now0 mon sched, (1 <= c_cap c)%nat -> Forall label_noclose sched ->
  let s := mrun c (init_state maxCost bdur now0 mon) sched in
  busy s \/ s_buf s <> [] \/ s_apend s <> [] \/ (s_apc s <> AIdle /\ s_apc s <> AExited) ->
  exists l, progress_label l /\ enabled c s l.
Proof.
  intros c maxCost bdur now0 mon sched Hcap HL s.
  destruct (reachable_proto c maxCost bdur now0 mon sched HL) as [H1 H2]. now apply no_deadlock.
Qed.

(* The applier goroutine never blocks while it has anything to do; in particular the eviction loop of
   defaultPolicy.Add terminates for every state, cost and Go map order. *)
Theorem C08_applier_never_blocks : forall c s orders, s_panic s = false ->
  s_apend s <> [] \/ (s_apc s <> AIdle /\ s_apc s <> AExited) \/ (s_apc s = AIdle /\ s_buf s <> []) ->
  enabled c s (LApp false orders).
Proof. exact app_progress. Qed.

(* A blocked Wait is always releasable: its marker is closed or still in the write buffer (from where the applier
   or Clear's drain closes it). *)
Theorem C08_wait_releasable : forall c maxCost bdur now0 mon sched tid t id, Forall label_noclose sched ->
  let s := mrun c (init_state maxCost bdur now0 mon) sched in
  s_threads s !! tid = Some t -> t_pc t = CWaitBlock id -> id ∈ s_markers s \/ marker_in (s_buf s) id.
Proof.
  intros c maxCost bdur now0 mon sched tid t id HL s.
  destruct (reachable_proto c maxCost bdur now0 mon sched HL) as [_ Hp]. apply (pi_wait _ Hp).
Qed.

(* "Every call returns in bounded time", at the grain of the machine.  [phi s] is an explicit potential: a weight for
   every goroutine's remaining program (its program counter and pending callbacks), for every buffered item (what
   the applier or Clear's drain still has to do with it), for the applier's current item / sweep, plus 18 per accounted
   key (pays for the victims of later evictions: one Add evicts at most 6 per key it removes, pol_add_bound) and 2 per
   map entry (pays for Clear's callbacks).  Every step of a client goroutine or of the applier strictly decreases it —
   in every state, reachable or not. *)
Theorem C08_progress_decreases : forall c s l s', progress_label l -> mstep c s l = Some s' -> (phi s' < phi s)%nat.
Proof. exact progress_decreases. Qed.

(* So without new calls and ticker events at most [phi s] steps can be taken at all ... *)
Theorem C08_bounded_progress : forall c sched s, Forall progress_label sched -> (executed c s sched <= phi s)%nat.
Proof. exact bounded_progress. Qed.

(* ... and (no deadlock) when nothing can step any more, every call has returned, the write buffer is empty and the
   applier is idle: every call issued on an open cache returns within [phi] steps of the system. *)
Theorem C08_rest_means_done : forall c maxCost bdur now0 mon sched0 sched,
  (1 <= c_cap c)%nat -> Forall label_noclose sched0 -> Forall progress_label sched ->
  let s := mrun c (mrun c (init_state maxCost bdur now0 mon) sched0) sched in
  (forall l, progress_label l -> mstep c s l = None) ->
  ~ busy s /\ s_buf s = [] /\ s_apend s = [] /\ (s_apc s = AIdle \/ s_apc s = AExited).
Proof. exact rest_means_done. Qed.

(* ---- below the grain of the machine: the mutexes themselves ----
   Gen/LockOrder.v is regenerated from /repo's source on every run (tools/lockorder: go/types over cache.go, store.go,
   ttl.go, policy.go, ring.go, sketch.go): the mutex classes, every pair (held, acquired) - directly or through callees -
   and every blocking channel operation under a mutex.  For the source as it is now: every pair climbs the hierarchy
   shard < expiry index < policy < metrics (so no class is ever acquired under itself: no second shard, no recursive
   read lock), and nothing blocks on a channel while holding a mutex. *)
Theorem C08_lock_order :
  (forall c, In c lock_classes -> lock_rank c <> 0%nat) /\
  (forall a b f, In (a, b, f) lock_edges -> (lock_rank a < lock_rank b)%nat) /\
  lock_chanops = [].
Proof.
  split; [|split; [exact edges_climb|exact no_chanop_under_mutex]].
  intros c Hc. pose proof order_ok_now as Hok. unfold order_ok in Hok.
  apply andb_prop in Hok as [Hok _]. apply andb_prop in Hok as [Hok _].
  rewrite forallb_forall in Hok. specialize (Hok _ Hc). unfold known_class in Hok.
  intros E. rewrite E in Hok. discriminate.
Qed.

(* Hence, for any number of threads whose mutex acquisitions are among the analysed pairs: there is no cycle of threads
   each waiting for a mutex held by the next ... *)
Theorem C08_no_mutex_cycle : forall (T : Type) (held : T -> list String.string) (waits : T -> option String.string),
  (forall t c h, waits t = Some c -> In h (held t) -> exists f, In (h, c, f) lock_edges) ->
  forall t mid, ~ chain T held waits t mid t.
Proof. exact no_mutex_cycle. Qed.

(* ... and whoever blocks a waiting thread is either not waiting for a mutex (it is running inside a critical section -
   it cannot be blocked on a channel there, C08_lock_order; critical sections are loop-free or proved terminating,
   C09_terminates) or waits strictly higher in the hierarchy, which has four levels. *)
Theorem C08_blocker_is_higher : forall (T : Type) (held : T -> list String.string) (waits : T -> option String.string),
  (forall t c h, waits t = Some c -> In h (held t) -> exists f, In (h, c, f) lock_edges) ->
  forall t u, blocked_by T held waits t u -> waits u = None \/ (wrank T waits t < wrank T waits u)%nat.
Proof. exact blocker_is_higher. Qed.

(* ---- lock discipline: which mutex guards which field ----
   Gen/LockOrder.v also lists every access to a field of the package's struct types with the mutexes certainly held
   there (what a function holds on entry = what all its call sites hold).  Cache/LockOrder.v states the discipline
   (guards: the shard map under the shard lock, the expiry buckets under the expiry-index lock, the accounting, the
   sketch and the doorkeeper under the policy mutex, the life-expectancy histogram under Metrics.mu); every access of
   the current source obeys it: writes - and reads of fields whose contents are written through them - hold the guard
   exclusively, reads hold it at least shared, no guarded field is touched through sync/atomic; and the one field that is
   shared without a mutex (sampledLFU.maxCost: UpdateMaxCost against Add / MaxCost) is only ever touched through sync/atomic. *)
Theorem C08_lock_discipline : forallb access_ok lock_accesses = true.
Proof. exact discipline_ok_now. Qed.

(* Hence no data race on a guarded field at the level of the lock discipline: if two different goroutines (neither
   inside a constructor) are both inside an access to the same guarded field, and mutexes exclude as sync.Mutex /
   RWMutex do, then both accesses are reads. *)
Theorem C08_no_conflicting_access : forall (T : Type) (holding : T -> list (String.string * bool)),
  (forall t u g m, t <> u -> In (g, true) (holding t) -> In (g, m) (holding u) -> False) ->
  forall t u field k1 f1 k2 f2 g strict, t <> u ->
  guard_of field = Some (g, strict) ->
  existsb (String.eqb f1) constructors = false -> existsb (String.eqb f2) constructors = false ->
  performs T holding t field k1 f1 -> performs T holding u field k2 f2 ->
  needs_exclusive field k1 f1 strict = false /\ needs_exclusive field k2 f2 strict = false.
Proof. exact no_conflicting_access. Qed.

(* non-vacuity: the table constrains at least 30 accesses (63 at the pinned commit) of the current source, and every guarded field occurs *)
Example C08_lock_discipline_nonvacuous :
  (30 <= List.length guarded_accesses)%nat /\
  forallb (fun g => existsb (fun a => String.eqb (fst (fst (fst a))) (fst (fst g))) guarded_accesses) guards = true.
Proof. exact discipline_nonvacuous. Qed.

(* non-vacuity: the shard -> expiry-index nesting is there, with the functions it comes from *)
Example C08_lock_order_nonvacuous : exists f, In (shard_class, expiry_class, f) lock_edges.
Proof. eexists. vm_compute. left. reflexivity. Qed.

(* non-vacuity: a reachable state with a goroutine blocked in Wait behind a gated item *)
Example C08_blocked_wait_reachable :
  let c := {| c_cap := 2; c_bdur := 5; c_ignore_internal := true; c_item_size := 0; c_should := fun _ _ => true;
              c_costfn := None |} in
  let s := mrun c (init_state 100 5 1000 true)
             [LCall 1 (OSet 7 7 1 1 0); LStep 1; LStep 1; LCall 2 OWait; LStep 2] in
  t_pc (get_thread s 2) = CWaitBlock 1 /\ length (s_buf s) = 2%nat /\ busy s.
Proof.
  vm_compute. split; [reflexivity|]. split; [reflexivity|].
  exists 2%nat. eexists. split; [reflexivity|]. discriminate.
Qed.

(* ---- Ring stripes (ring.go): the one structure of the Get path that no mutex guards.  Cache/RingOwn.v models the
   hand-off of stripes through sync.Pool and of drained batches through itemsCh, with stripes and backing arrays as
   identities, for any number of goroutines.  For every schedule (pool.Get of any pooled stripe or pool.New, append,
   drain kept / refused, pool.Put, receipt by processItems, end of tinyLFU.Push, GC of pooled stripes): no goroutine
   holds two stripes, no stripe is held twice or both held and pooled, and no backing array is shared between two
   stripes, or between a stripe and a batch that is queued in itemsCh or being read by the policy goroutine.  Hence two
   goroutines never append to the same array, and the policy goroutine never reads an array a Get can still write. ---- *)
Theorem C08_ring_exclusive : forall ops,
  let s := orun o_init ops in
  NoDup (tids s) /\ NoDup (sids s) /\ NoDup (writers s ++ readers s).
Proof. exact ring_exclusive. Qed.

Theorem C08_ring_reader_not_writer : forall ops b,
  let s := orun o_init ops in
  In b (readers s) -> ~ In b (writers s).
Proof. exact ring_reader_not_writer. Qed.

(* two goroutines, one pooled stripe changing hands, a kept batch being read while both goroutines hold stripes *)
Example C08_ring_nonvacuous :
  let s := orun o_init [OGet 1 None; OStore 0; OKept 0; OPut 0; OGet 2 (Some 0); OGet 1 None; ORecv; OStore 0; ORefused 1]%nat in
  (tids s, sids s, writers s, readers s) = ([1; 2], [3; 0], [4; 2], [1])%nat.
Proof. vm_compute. reflexivity. Qed.
