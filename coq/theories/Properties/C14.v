(* C14 — Expiry processing reclaims exactly the expired items, each once.  Statements only.
   The sweep is the applier's program  grab buckets ; per key: DelExpired (one shard critical section) ;
   policy Cost+Del ; OnEvict ; OnExit  — client writes may be scheduled between any two of these steps. *)
From stdpp Require Import gmap.
From Ristretto Require Import Base.Word Cache.Policy Cache.Store Cache.StoreProofs Cache.Machine Cache.MachineProofs
  Cache.ExpProofs.
Local Open Scope Z_scope.

(* The sweep removes an entry only if the expiration CURRENTLY attached to it is set and has passed at the
   sweep's time: entries without TTL and entries re-written with a later or no TTL are never removed by expiry
   processing, wherever the re-write lands relative to the sweep.  (Any state, hence every schedule.) *)
Theorem C14_only_expired : forall c s k cf ks t tick orders s',
  s_apc s = ASweep ((k, cf) :: ks) t -> s_apend s = [] -> s_panic s = false ->
  mstep c s (LApp tick orders) = Some s' ->
  (s_store s' = s_store s /\ s_apc s' = ASweep ks t) \/
  (exists it, s_store s !! k = Some it /\ si_exp it <> 0 /\ si_exp it <= t /\
              s_store s' = delete k (s_store s) /\ s_apc s' = ASweepPol k it ks t).
Proof. exact sweep_visit_step. Qed.

(* ... its capacity is released and exactly that entry's value is reported through OnEvict then OnExit. *)
Theorem C14_reported : forall c s k it ks t tick orders s',
  s_apc s = ASweepPol k it ks t -> s_apend s = [] -> s_panic s = false ->
  mstep c s (LApp tick orders) = Some s' ->
  s_store s' = s_store s /\ p_costs (s_pol s') = delete k (p_costs (s_pol s)) /\
  s_apc s' = ASweep ks t /\
  s_apend s' = [CbEvict k (si_conf it) (si_val it) (pol_cost (s_pol s) k); CbExit (si_val it)].
Proof. exact sweep_report_step. Qed.

(* The sweep time never lies in the future, so "has passed at the sweep's time" implies "has passed now". *)
Theorem C14_sweep_time : forall c maxCost now0 mon sched t, 0 < c_bdur c -> 0 < now0 ->
  let s := mrun c (init_state maxCost (c_bdur c) now0 mon) sched in
  (exists keys, s_apc s = ASweep keys t) \/ (exists k it keys, s_apc s = ASweepPol k it keys t) -> 0 < t <= s_now s.
Proof. intros c maxCost now0 mon sched t Hb Hn s. apply (ei_sweep_t _ _ (reachable_exp c maxCost now0 mon sched Hb Hn)). Qed.

(* No TTL entry is ever lost by the expiry index, in any reachable state of any schedule (every applier lag,
   inserts applied after their bucket was swept included): it is indexed in a bucket the sweep has not taken yet
   — the bucket of its expiration, or the next bucket to be cleaned when that one was already behind the sweep at
   write time — or it is waiting in the key list of the running sweep, whose time is past its expiration. *)
Theorem C14_never_lost : forall c maxCost now0 mon sched k it, 0 < c_bdur c -> 0 < now0 ->
  let s := mrun c (init_state maxCost (c_bdur c) now0 mon) sched in
  s_store s !! k = Some it -> si_exp it <> 0 ->
  (exists b bk, em_buckets (s_em s) !! b = Some bk /\ bk !! k = Some (si_conf it) /\
                em_last (s_em s) < b /\ storage_bucket (c_bdur c) (si_exp it) <= b /\
                (b = storage_bucket (c_bdur c) (si_exp it) \/ b = em_last (s_em s) + 1)) \/
  pending (s_apc s) k it.
Proof.
  intros c maxCost now0 mon sched k it Hb Hn s Hl Hnz.
  destruct (ei_store _ _ (reachable_exp c maxCost now0 mon sched Hb Hn) _ _ Hl Hnz) as [(b & (bk & H1 & H2) & H3)|Hp].
  - left. exists b, bk. tauto.
  - now right.
Qed.

(* A sweep takes every bucket up to the cleanup bucket of its time: an entry indexed at or below it becomes
   pending, with a sweep time past its expiration ... *)
Theorem C14_sweep_takes : forall c e st now pref keys e',
  0 < c_bdur c -> 0 < now -> em_last e <= cleanup_bucket (c_bdur c) now ->
  store_all (fun k it => si_exp it <> 0 -> 0 < si_exp it) st ->
  em_grab (c_bdur c) now e = (keys, e') ->
  store_all (eok c e AIdle) st -> store_all (eok c e' (ASweep (reorder pref keys) now)) st.
Proof. exact eok_grab. Qed.

(* ... and a pending entry cannot be skipped by the sweep's visit of its key. *)
Theorem C14_pending_taken : forall bdur st e k it t r st' e',
  st !! k = Some it -> si_exp it <> 0 -> si_exp it <= t ->
  store_del_expired bdur st e k (si_conf it) t = (r, st', e') -> r = Some it /\ st' = delete k st.
Proof. exact del_expired_takes. Qed.

(* Non-vacuity, and the late insert of the old defect: applied after its bucket was swept, it is parked in the
   next bucket and reclaimed by a later sweep. *)
Definition c14_cfg : cfg :=
  {| c_cap := 4; c_bdur := 5; c_ignore_internal := true; c_item_size := 56; c_should := fun _ _ => true;
     c_costfn := None |}.
Definition c14_sched : list label :=
  [LCall 1 (OSet 7 100 11 5 1000000000); LStep 1; LStep 1;
   LTime 11000000000; LApp true []; LApp false [];                      (* bucket swept while the item is buffered *)
   LApp false []; LApp false []; LApp false []; LApp false [];          (* insert applied late *)
   LTime 11000000000; LApp true []; LApp false []; LApp false []; LApp false []; LApp false []; LApp false []].
Example C14_nonvacuous :
  let s := mrun c14_cfg (init_state 100 5 946684800000000000 true) c14_sched in
  map_to_list (s_store s) = [] /\ pol_cap (s_pol s) = 100 /\
  exists rest, s_log s = ECb None (CbExit 11) :: ECb None (CbEvict 7 100 11 5) :: rest.
Proof. vm_compute. split; [reflexivity|]. split; [reflexivity|]. eauto. Qed.

Print Assumptions C14_only_expired.
Print Assumptions C14_never_lost.
Print Assumptions C14_sweep_takes.
