(* C01 — Get returns only values that were written under that very key.  Statements only.
   Machine: Cache/Machine.v (lock-grain interleaving machine).  A schedule is any list of labels (client calls and
   steps of any number of threads, applier / sweep steps, clock and estimate changes); keys are (hash, conflict)
   pairs, so the theorems hold for every key-hash function and every key set, colliding or not. *)
From stdpp Require Import gmap.
From Ristretto Require Import Base.Word Base.Xxhash Cache.KeyHash Cache.Policy Cache.Store Cache.Machine Cache.MachineProofs.
Local Open Scope Z_scope.

(* the log is newest-first: in  l1 ++ e :: l2  the events of l2 happened before e *)
Theorem C01_provenance : forall c maxCost bdur now0 mon sched l1 l2 tid k cf v, 0 < now0 ->
  s_log (mrun c (init_state maxCost bdur now0 mon) sched) = l1 ++ ERet tid (OGet k cf) (RVal v true) :: l2 ->
  exists cf' tid' cost ttl t,
    (cf = 0%N \/ cf = cf') /\ In (ECall tid' (OSet k cf' v cost ttl) t) l2.
Proof.
  intros c maxCost bdur now0 mon sched l1 l2 tid k cf v Hpos Hlog.
  pose proof (pv_log _ (reachable_prov c maxCost bdur now0 mon sched Hpos)) as H.
  rewrite Hlog in H. apply log_ok_split in H. simpl in H.
  destruct H as (cf' & exp & now & rest & -> & Hc & (tid' & cost & ttl & t & Hin & _) & _).
  exists cf', tid', cost, ttl, t. split; [exact Hc|]. now right.
Qed.

(* hence a value that was only ever written under one key is never returned for a different key, even one that
   shares the primary hash, as long as the conflict hashes are non-zero and differ *)
Theorem C01_no_cross_key : forall c maxCost bdur now0 mon sched l1 l2 tid k1 c1 k2 c2 v, 0 < now0 ->
  let log := s_log (mrun c (init_state maxCost bdur now0 mon) sched) in
  (forall tid' k cf cost ttl t, In (ECall tid' (OSet k cf v cost ttl) t) log -> k = k1 /\ cf = c1) ->
  log = l1 ++ ERet tid (OGet k2 c2) (RVal v true) :: l2 ->
  k2 = k1 /\ (c2 = 0%N \/ c2 = c1).
Proof.
  intros c maxCost bdur now0 mon sched l1 l2 tid k1 c1 k2 c2 v Hpos log Honly Hlog.
  destruct (C01_provenance _ _ _ _ _ _ _ _ _ _ _ _ Hpos Hlog) as (cf' & tid' & cost & ttl & t & Hc & Hin).
  destruct (Honly tid' k2 cf' cost ttl t) as [-> ->].
  - subst log. rewrite Hlog. apply in_or_app. right. now right.
  - auto.
Qed.

(* The pairs themselves (z.KeyToHash, Cache/KeyHash.v; memhash, seeded per process by the Go runtime, is a parameter).
   Integer keys: conflict hash 0 and a primary hash that identifies the key within its kind - so for integer keys
   C01_provenance says "written under that very key", with no collision caveat at all. *)
Theorem C01_int_keys_exact : forall memhash n1 n2 kd v1 v2, in_range kd v1 -> in_range kd v2 ->
  fst (key_to_hash memhash n1 (HInt kd v1)) = fst (key_to_hash memhash n2 (HInt kd v2)) -> v1 = v2.
Proof. exact int_keys_exact. Qed.

Theorem C01_int_keys_conflict0 : forall memhash n kd v, snd (key_to_hash memhash n (HInt kd v)) = 0%N.
Proof. exact int_keys_conflict0. Qed.

(* string / []byte keys, plain or of a defined type: both hashes are functions of the contents alone; the conflict hash
   is XXH64(contents) (Base/Xxhash.v, checked against the published vectors and, on every run, against the code), a
   64-bit value independent of the process seed.  Two keys are told apart exactly when their contents differ in
   memhash or in XXH64: the residual risk is a simultaneous collision of both, which the property's "conflict hashes
   differ" premise excludes. *)
Theorem C01_content_keys : forall memhash n1 n2 b,
  key_to_hash memhash n1 (HStr b) = (memhash b, xxh64 b) /\
  key_to_hash memhash n2 (HBytes b) = (memhash b, xxh64 b) /\ (xxh64 b < two64)%N.
Proof. intros. split; [reflexivity|]. split; [reflexivity|apply xxh64_lt]. Qed.

(* The two halves together, for the keys a user actually passes.  A value that was only ever written under the string /
   []byte key with contents b1 is never returned by a Get of contents b2, provided XXH64 tells them apart (and the
   reader's conflict hash is not the wildcard 0) - whatever the runtime's memhash does ... *)
Theorem C01_content_keys_never_cross : forall memhash n1 n2 c maxCost bdur now0 mon sched l1 l2 tid b1 b2 v, 0 < now0 ->
  let log := s_log (mrun c (init_state maxCost bdur now0 mon) sched) in
  let k1 := key_to_hash memhash n1 (HStr b1) in
  let k2 := key_to_hash memhash n2 (HBytes b2) in
  xxh64 b2 <> 0%N -> xxh64 b1 <> xxh64 b2 ->
  (forall tid' k cf cost ttl t, In (ECall tid' (OSet k cf v cost ttl) t) log -> k = fst k1 /\ cf = snd k1) ->
  log <> l1 ++ ERet tid (OGet (fst k2) (snd k2)) (RVal v true) :: l2.
Proof.
  intros memhash n1 n2 c maxCost bdur now0 mon sched l1 l2 tid b1 b2 v Hpos log k1 k2 Hnz Hne Honly Hlog.
  destruct (C01_no_cross_key c maxCost bdur now0 mon sched l1 l2 tid (fst k1) (snd k1) (fst k2) (snd k2) v Hpos Honly Hlog)
    as [_ [H|H]]; cbn in H; congruence.
Qed.

(* ... and for integer keys with no proviso at all: different keys of one integer kind never share a value. *)
Theorem C01_int_keys_never_cross : forall memhash n1 n2 c maxCost bdur now0 mon sched l1 l2 tid kd v1 v2 v, 0 < now0 ->
  let log := s_log (mrun c (init_state maxCost bdur now0 mon) sched) in
  let k1 := key_to_hash memhash n1 (HInt kd v1) in
  let k2 := key_to_hash memhash n2 (HInt kd v2) in
  in_range kd v1 -> in_range kd v2 -> v1 <> v2 ->
  (forall tid' k cf cost ttl t, In (ECall tid' (OSet k cf v cost ttl) t) log -> k = fst k1 /\ cf = snd k1) ->
  log <> l1 ++ ERet tid (OGet (fst k2) (snd k2)) (RVal v true) :: l2.
Proof.
  intros memhash n1 n2 c maxCost bdur now0 mon sched l1 l2 tid kd v1 v2 v Hpos log k1 k2 H1 H2 Hne Honly Hlog.
  destruct (C01_no_cross_key c maxCost bdur now0 mon sched l1 l2 tid (fst k1) (snd k1) (fst k2) (snd k2) v Hpos Honly Hlog)
    as [H _].
  apply Hne. symmetry in H. exact (int_keys_exact memhash n1 n2 kd v1 v2 H1 H2 H).
Qed.

(* Non-vacuity: a schedule in which a Get hits. *)
Definition c01_cfg : cfg :=
  {| c_cap := 4; c_bdur := 5; c_ignore_internal := true; c_item_size := 56; c_should := fun _ _ => true;
     c_costfn := None |}.
Definition c01_sched : list label :=
  [LCall 1 (OSet 7 100 11 5 0); LStep 1; LStep 1; LApp false []; LApp false []; LApp false []; LApp false [];
   LCall 2 (OGet 7 100)].
Example C01_nonvacuous :
  exists rest, s_log (mrun c01_cfg (init_state 100 5 1000 true) c01_sched) = ERet 2 (OGet 7 100) (RVal 11 true) :: rest.
Proof. vm_compute. eauto. Qed.

Print Assumptions C01_provenance.
Print Assumptions C01_no_cross_key.
Print Assumptions C01_int_keys_exact.
Print Assumptions C01_int_keys_conflict0.
Print Assumptions C01_content_keys.
Print Assumptions C01_content_keys_never_cross.
Print Assumptions C01_int_keys_never_cross.
