(* C18 — Access-frequency estimates never under-count, saturate, and age by halving.
   Statements only; every theorem is closed by [exact] of a lemma proved in Sketch/*Proofs.v. *)
From Ristretto Require Import Base.Word Sketch.Sketch Sketch.SketchProofs Bloom.Bloom Bloom.BloomProofs
  Sketch.TinyLFU Sketch.TinyLFUProofs.
Open Scope N_scope.

(* A 4-bit counter increment: the addressed counter becomes min 15 (v+1) ... *)
Theorem C18_row_inc_target : forall r n, row_wf r -> n < 2 * lenN r ->
  row_get (row_inc r n) n = N.min 15 (row_get r n + 1).
Proof. exact row_inc_same. Qed.

(* ... and every other counter (in particular the other half of the same byte) is unchanged. *)
Theorem C18_row_inc_others : forall r n m, row_wf r -> m <> n -> row_get (row_inc r n) m = row_get r m.
Proof. exact row_inc_other. Qed.

(* An aging reset halves every counter independently, rounding down. *)
Theorem C18_row_reset : forall r n, row_wf r -> row_get (row_reset r) n = row_get r n / 2.
Proof. exact row_reset_get. Qed.

(* next2Power: smallest power of two >= x, on the whole range where the int64 arithmetic does not wrap;
   the sketch built for NumCounters >= 2 has that many counters per row. *)
Theorem C18_next2power : forall x, (1 <= x <= 2 ^ 62)%Z ->
  exists k, (0 <= k <= 62 /\ next2power x = 2 ^ k /\ x <= 2 ^ k /\ 2 ^ k < 2 * x)%Z.
Proof. exact next2power_spec. Qed.

Theorem C18_table_size : forall nc seeds, (2 <= nc <= 2 ^ 62)%Z ->
  exists k, (1 <= k <= 62)%Z /\ next2power nc = (2 ^ k)%Z /\ (nc <= 2 ^ k < 2 * nc)%Z /\
    sk_wf (sketch_new nc seeds) /\ sk_mask (sketch_new nc seeds) = Z.to_N (2 ^ k - 1) /\
    Forall (fun r => 2 * lenN r = Z.to_N (2 ^ k)) (sk_rows (sketch_new nc seeds)).
Proof. exact sketch_new_wf. Qed.

(* Count-min sketch: n recorded accesses of k, interleaved with any other accesses, any seeds:
   the estimate is at least min 15 (old + n); never above 15; recording never lowers any estimate. *)
Theorem C18_sketch_lower : forall s hs k, sk_wf s ->
  N.min 15 (sk_estimate s k + N.of_nat (count_occ N.eq_dec hs k)) <= sk_estimate (fold_left sk_increment hs s) k.
Proof. exact sk_incs_lower. Qed.

Theorem C18_sketch_monotone : forall s h k, sk_wf s -> sk_estimate s k <= sk_estimate (sk_increment s h) k.
Proof. exact sk_increment_mono. Qed.

Theorem C18_sketch_upper : forall s k, sk_wf s -> sk_rows s <> [] -> sk_estimate s k <= 15.
Proof. exact sk_estimate_le15. Qed.

(* TinyLFU (sketch + doorkeeper): between two aging resets, after n recorded accesses the estimate is
   at least min 16 (old + n) >= min 15 n, and never exceeds 16. *)
Theorem C18_lower : forall t hs k, tl_wf t ->
  (tl_incrs t + Z.of_nat (length hs) < tl_resetAt t)%Z ->
  N.min 16 (tl_estimate t k + N.of_nat (count_occ N.eq_dec hs k)) <= tl_estimate (tl_push t hs) k.
Proof. intros t hs k Hwf Hno. rewrite tl_push_no_reset by exact Hno. exact (tl_bumps_lower t hs k Hwf). Qed.

Theorem C18_upper : forall t k, tl_wf t -> tl_estimate t k <= 16.
Proof. exact tl_estimate_le16. Qed.

Theorem C18_monotone : forall t h k, tl_wf t -> tl_estimate t k <= tl_estimate (tl_bump t h) k.
Proof. exact tl_bump_mono. Qed.

(* The access that reaches resetAt: every counter halved (independently), first-access marks forgotten,
   increment counter zeroed. *)
Theorem C18_reset_step : forall t k, (tl_resetAt t <= tl_incrs t + 1)%Z ->
  tl_increment t k = tl_reset (tl_bump t k).
Proof. exact tl_increment_reset. Qed.

Theorem C18_reset_effect : forall t, tl_wf t -> 1 <= bl_locs (tl_door t) ->
  tl_incrs (tl_reset t) = 0%Z /\
  (forall h, bl_has (tl_door (tl_reset t)) h = false) /\
  (forall i n, (i < length (sk_rows (tl_freq t)))%nat ->
     row_get (nth i (sk_rows (tl_freq (tl_reset t))) []) n = row_get (nth i (sk_rows (tl_freq t)) []) n / 2).
Proof. exact tl_reset_spec. Qed.

Theorem C18_clear : forall t, tl_wf t -> 1 <= bl_locs (tl_door t) ->
  tl_incrs (tl_clear t) = 0%Z /\ forall h, tl_estimate (tl_clear t) h = 0.
Proof. exact tl_clear_spec. Qed.

(* Non-vacuity: a concrete sketch/tinyLFU satisfying the hypotheses, with saturated counters. *)
Example C18_nonvacuous :
  let s := sketch_new 8 [1; 2; 3; 4] in
  sk_wf s /\ sk_rows s <> [] /\
  sk_estimate (fold_left sk_increment (repeat 7 20) s) 7 = 15 /\
  sk_estimate (sk_reset (fold_left sk_increment (repeat 7 20) s)) 7 = 7.
Proof.
  split; [|split; [discriminate|split; vm_compute; reflexivity]].
  split; [reflexivity|]. repeat constructor; vm_compute; try reflexivity;
    repeat constructor; reflexivity.
Qed.

Print Assumptions C18_row_inc_target.
Print Assumptions C18_next2power.
Print Assumptions C18_lower.
Print Assumptions C18_reset_effect.
