From Ristretto Require Import Base.Word Sketch.Sketch.
Theorem C18_placeholder : nib_get 0 0 = 0%N.
Proof. reflexivity. Qed.
