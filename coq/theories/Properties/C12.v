(* C12 -- placeholder, replaced below *)
From Ristretto Require Import Base.Word Alloc.Alloc.
Open Scope N_scope.
Example C12_nonvacuous : a_allocated (alloc_new 1 1000) = 1024.
Proof. vm_compute; reflexivity. Qed.
