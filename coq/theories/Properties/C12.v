(* C12 — z.Allocator hands out disjoint, stable, exactly sized memory, also concurrently.  Statements only.

   Model: Alloc/Alloc.v, a multi-threaded step machine; one `AcStep t` is one atomic action of goroutine t inside
   Allocate (fetch-and-add, bounds test, Lock, reload+compare, addBufferAt, Store, Unlock, slicing).  A schedule is a
   list of choices of any length; `agrun` executes it with Reset/TrimTo taken only while no call is in flight (their
   documented use); `nocarry_run` is the no-carry regime: every fetch-and-add that is executed leaves the 32-bit
   offset half of compIdx below 2^32 (outside it: C12_carry_refuted, KNOWN_FINDINGS carry).
   `handed st` is the log of ranges (chunk, offset, length) returned since the last Reset. *)
From Ristretto Require Import Base.Word Alloc.Alloc Alloc.AllocProofs.
Open Scope N_scope.

(* For every number of goroutines, every initial size and EVERY schedule in the no-carry regime:
   - the ranges returned since the last Reset are pairwise disjoint (gdisj: different chunk or disjoint intervals),
   - each lies inside its chunk (or that chunk has since been released by TrimTo),
   - the intervals still owned by calls in flight are disjoint from the log and from one another,
   - no call ends in a panic other than the two documented ones (size above MaxAlloc, 64-chunk limit): no slice-bounds
     or index panic, no non-terminating loop,
   - the chunk index stays below 64. *)
Theorem C12_disjoint : forall nthreads sz0 sched,
  nocarry_run (alloc_new nthreads sz0) sched ->
  let st := agrun (alloc_new nthreads sz0) sched in
  ForallOrdPairs gdisj (handed st) /\
  Forall (in_chunk st) (handed st) /\
  (forall t g, grant_of (get_pc st t) = Some g -> Forall (gdisj g) (handed st)) /\
  (forall t1 t2 g1 g2, t1 <> t2 -> grant_of (get_pc st t1) = Some g1 -> grant_of (get_pc st t2) = Some g2 ->
     gdisj g1 g2) /\
  (forall t e, get_pc st t = TDone (OPanic e) -> e = PTooBig \/ e = PLimit64) /\
  cidx (compIdx st) < 64 /\ length (chunks st) = nbuf.
Proof. exact disjoint_all_schedules. Qed.

(* The regime made static: T goroutines, every request at most B bytes with (T+2)*B < 2 GiB (e.g. 62 goroutines and
   requests below 32 MiB, or 6 goroutines and requests below 256 MiB), initial size at most 1 GiB.  Then EVERY schedule
   is in the no-carry regime, so the conclusions of C12_disjoint hold with no hypothesis about the run.  (Invariant:
   offset <= 2 GiB + the adds of goroutines that overshot the current chunk and have not yet retried + at most one
   orphaned add of a goroutine that panicked at the 64-chunk limit.) *)
Theorem C12_static_regime : forall T B sz0 sched,
  sz0 <= max_alloc -> (N.of_nat T + 2) * B < 2 * max_alloc -> Forall (start_le B) sched ->
  nocarry_run (alloc_new T sz0) sched.
Proof. exact static_nocarry. Qed.

Theorem C12_disjoint_static : forall T B sz0 sched,
  sz0 <= max_alloc -> (N.of_nat T + 2) * B < 2 * max_alloc -> Forall (start_le B) sched ->
  let st := agrun (alloc_new T sz0) sched in
  ForallOrdPairs gdisj (handed st) /\
  Forall (in_chunk st) (handed st) /\
  (forall t g, grant_of (get_pc st t) = Some g -> Forall (gdisj g) (handed st)) /\
  (forall t1 t2 g1 g2, t1 <> t2 -> grant_of (get_pc st t1) = Some g1 -> grant_of (get_pc st t2) = Some g2 ->
     gdisj g1 g2) /\
  (forall t e, get_pc st t = TDone (OPanic e) -> e = PTooBig \/ e = PLimit64) /\
  cidx (compIdx st) < 64 /\ length (chunks st) = nbuf.
Proof. exact disjoint_static. Qed.

Theorem C12_disjoint_means_no_overlap : forall g1 g2, gdisj g1 g2 -> ~ overlaps g1 g2.
Proof. exact gdisj_not_overlaps. Qed.

(* Exactly the requested length, and the returned range is what enters the log: one atomic action of a call for sz
   bytes keeps the request size, or returns a range of length sz that is appended to the log, or panics; it does not
   touch the other goroutines.  (Holds for every state, in and outside the regime.) *)
Theorem C12_exact_length : forall st t st' sz,
  req_size (get_pc st t) = Some sz -> thread_step st t = Some st' ->
  match get_pc st' t with
  | TDone (ORange b lo n) => n = sz /\ handed st' = (b, lo, n) :: handed st
  | TDone _ => True
  | p' => req_size p' = Some sz
  end /\ forall t', t' <> t -> get_pc st' t' = get_pc st t'.
Proof. exact thread_step_size. Qed.

(* Returned memory never moves: no step other than TrimTo replaces, resizes or drops an allocated chunk (every state,
   every choice, guarded or not); TrimTo only releases chunks. *)
Theorem C12_stable : forall st c st', astep st c = Some st' -> (forall max, c <> AcTrim max) ->
  length (chunks st') = length (chunks st) /\
  forall i l, nthN (chunks st) i None = Some l -> 0 < l -> nthN (chunks st') i None = Some l.
Proof. exact chunks_stable. Qed.

Theorem C12_trim_only_frees : forall st max i,
  nthN (chunks (a_trim_to st max)) i None = nthN (chunks st) i None \/
  nthN (chunks (a_trim_to st max)) i None = None.
Proof. exact trim_only_frees. Qed.

(* AllocateAligned(sz), for every address of the chunk (bases c): the result has length sz, its address is a multiple
   of 8, it lies inside the sz+7 bytes that Allocate reserved for this call (which C12_disjoint separates from all other
   ranges), it is zeroed, and no byte outside those sz+7 bytes is written. *)
Theorem C12_aligned : forall bases st m t sz st' m' c o n,
  aligned_seq bases st m t sz = (st', m', Some (ORange c o n)) ->
  exists o0, alloc_seq st t (sz + 7) = (st', Some (ORange c o0 (sz + 7))) /\
    n = sz /\ (bases c + o) mod 8 = 0 /\ o0 <= o /\ o + n <= o0 + (sz + 7) /\
    (forall i, i < n -> m' c (o + i) = 0) /\
    (forall c' o', ~ (c' = c /\ o0 <= o' < o0 + (sz + 7)) -> m' c' o' = m c' o').
Proof. exact aligned_seq_spec. Qed.

(* Copy(bs): the range Allocate(len bs) returned, holding exactly bs; nothing outside it is written — so, ranges being
   disjoint, later calls never overwrite what an earlier call returned. *)
Theorem C12_copy : forall st m t bs st' m' c o n,
  copy_seq st m t bs = (st', m', Some (ORange c o n)) ->
  alloc_seq st t (lenN bs) = (st', Some (ORange c o n)) /\ n = lenN bs /\
  mem_read m' c o n = bs /\
  (forall c' o', ~ (c' = c /\ o <= o' < o + n) -> m' c' o' = m c' o').
Proof. exact copy_seq_spec. Qed.

(* Single goroutine: the no-carry regime is automatic (chunks are at most 2 GiB, the offset at most 2 GiB + 1 GiB), and
   after Reset, replaying the same requests returns the same ranges and leaves the allocator in exactly the state it
   had: `chunks` is unchanged, no memory is acquired.  SeqQ = "between calls" (goroutine back, mutex free); it holds
   of a new allocator and is kept by Reset, TrimTo and every list of calls none of which hits the 64-chunk limit, so the
   theorem covers every Reset/TrimTo history.  `good` excludes the 64-chunk panic (it leaves the mutex locked). *)
Theorem C12_seq_replay : forall st szs st1 outs,
  SeqQ st -> alloc_list (a_reset st) 0 szs = (st1, outs) -> Forall good outs ->
  alloc_list (a_reset st1) 0 szs = (st1, outs) /\ SeqQ st1.
Proof. exact seq_replay. Qed.

Theorem C12_seq_histories :
  (forall sz, sz <= max_alloc -> SeqQ (alloc_new 1 sz)) /\
  (forall st, SeqQ st -> SeqQ (a_reset st)) /\
  (forall st max, SeqQ st -> SeqQ (a_trim_to st max)) /\
  (forall st szs st' outs, SeqQ st -> alloc_list st 0 szs = (st', outs) -> Forall good outs -> SeqQ st').
Proof.
  split; [exact seqq_new|]. split; [exact seqq_reset|]. split; [exact seqq_trim|].
  intros st szs st' outs HQ H Hg. exact (proj1 (alloc_list_future szs st st' outs HQ H Hg)).
Qed.

(* ... and every call of a single goroutine returns -- with a range, nil, or one of the two documented panics -- within
   the fuel of alloc_seq (at most 8 atomic actions per chunk): Allocate cannot hang, whatever TrimTo released before
   (the general form of the repair of finding 4). *)
Theorem C12_seq_progress : forall st sz, SeqQ st ->
  exists st' o, alloc_seq st 0 sz = (st', Some o) /\ (good (Some o) \/ o = OPanic PLimit64).
Proof. exact seq_progress_good. Qed.

(* ... and every state between calls satisfies the invariant behind C12_disjoint *)
Theorem C12_seq_disjoint : forall st, SeqQ st ->
  ForallOrdPairs gdisj (handed st) /\ Forall (in_chunk st) (handed st).
Proof. exact seqq_disjoint. Qed.

(* TrimTo + Reset: allocation proceeds.  addBufferAt terminates for every content of the 64 slots (in particular when
   the previous slot was released) and every request up to MaxAlloc; C12_disjoint covers every Reset/TrimTo history.
   The loop of the code before commit 4454866 does not terminate, whatever the fuel, when the previous slot is empty. *)
Theorem C12_trim : forall cs k m, length cs = nbuf -> m <= max_alloc -> add_buffer_at cs k m <> ABHang.
Proof. exact add_buffer_at_total. Qed.

Theorem C12_trim_witness :
  let '(s1, o1) := alloc_seq (alloc_new 1 1024) 0 10 in
  let '(s2, o2) := alloc_seq (a_reset (a_trim_to s1 512)) 0 1 in
  o1 = Some (ORange 0 0 10) /\ nthN (chunks (a_trim_to s1 512)) 0 None = None /\ o2 = Some (ORange 1 0 1).
Proof. vm_compute. repeat split; reflexivity. Qed.

Theorem C12_trim_prefix_refuted : forall fuel m, 0 < m -> page_size_prefix fuel 0 m = None.
Proof. exact page_size_prefix_diverges. Qed.

(* Outside the no-carry regime the property is false of the code (known finding "carry"): with four 1 GiB requests in
   flight the offset half carries into the chunk index and the fourth call panics with a slice-bounds error ... *)
Definition c12_G : N := 1073741824.
Definition c12_carry_sched : list achoice :=
  [AcStart 0 c12_G; AcStart 1 c12_G; AcStart 2 c12_G; AcStart 3 c12_G;
   AcStep 0; AcStep 1; AcStep 2; AcStep 3; AcStep 3; AcStep 3].
(* ... and with a goroutine parked under the mutex the carried word is then overwritten by its Store, so that two
   returned ranges overlap. *)
Definition c12_overlap_sched : list achoice :=
  [AcStart 0 600] ++ repeat (AcStep 0) 12 ++ [AcReset; AcStart 0 600] ++ repeat (AcStep 0) 4 ++
  [AcStart 1 c12_G; AcStart 2 c12_G; AcStart 3 c12_G; AcStart 4 (c12_G - 500);
   AcStep 1; AcStep 2; AcStep 3; AcStep 4; AcStart 5 50; AcStep 5; AcStep 5; AcStep 5] ++ repeat (AcStep 0) 6.
Theorem C12_carry_refuted :
  (let st := agrun (alloc_new 4 512) c12_carry_sched in
   cidx (compIdx st) = 1 /\ get_pc st 3 = TDone (OPanic (PSlice 0 c12_G))) /\
  (let st := agrun (alloc_new 6 512) c12_overlap_sched in
   handed st = [(1, 0, 600); (1, 100, 50)] /\ overlaps (1, 0, 600) (1, 100, 50) /\
   nthN (chunks st) 1 None = Some 1024).
Proof. vm_compute. repeat split; reflexivity. Qed.

(* Non-vacuity: a schedule inside the regime in which three goroutines race for the end of the first chunk: goroutine 1
   fits; 0 and 2 overshoot; 0 takes the mutex, grows the allocator and stores (1,0) while 2 is blocked on the mutex
   (its Lock choice is disabled and skipped); 2 then finds the epoch closed under the mutex, unlocks and retries; all
   three ranges are returned.  The second component shows the intermediate state: 2 holds the mutex, stale. *)
Definition c12_example_sched : list achoice :=
  [AcStart 0 300; AcStart 1 400; AcStart 2 200; AcStep 1; AcStep 0; AcStep 2; AcStep 1; AcStep 0; AcStep 2;
   AcStep 0; AcStep 2; AcStep 0; AcStep 0; AcStep 1; AcStep 0; AcStep 0; AcStep 2; AcStep 2; AcStep 0;
   AcStep 2; AcStep 2; AcStep 2; AcStep 0; AcStep 2; AcStep 0].
Example C12_nonvacuous :
  nocarry_run (alloc_new 3 512) c12_example_sched /\
  (let st := agrun (alloc_new 3 512) c12_example_sched in
   handed st = [(1, 0, 300); (1, 300, 200); (0, 0, 400)] /\
   firstn 3 (chunks st) = [Some 512; Some 1024; None] /\ lock st = None) /\
  (let st := agrun (alloc_new 3 512) (firstn 17 c12_example_sched) in
   threads st = [TReq 300; TDone (ORange 0 0 400); TLocked 200 0] /\ lock st = Some 2%nat /\
   cidx (compIdx st) = 1).
Proof. vm_compute. repeat split; reflexivity. Qed.

(* ... the same schedule meets the static regime (3 goroutines, requests up to 400 bytes), and a single-goroutine history
   with a zero-sized and an oversized request meets the hypotheses of C12_seq_replay (three chunks are acquired). *)
Example C12_nonvacuous_static_seq :
  ((N.of_nat 3 + 2) * 400 < 2 * max_alloc /\ Forall (start_le 400) c12_example_sched) /\
  (let '(st1, outs) := alloc_list (a_reset (alloc_new 1 512)) 0 [600; 0; 2000; 100; 1073741825] in
   outs = [Some (ORange 1 0 600); Some ONil; Some (ORange 2 0 2000); Some (ORange 3 0 100); Some (OPanic PTooBig)] /\
   Forall good outs /\ firstn 5 (chunks st1) = [Some 512; Some 1024; Some 2048; Some 4096; None]).
Proof.
  split.
  - split; [vm_compute; reflexivity|]. unfold c12_example_sched. repeat constructor; vm_compute; congruence.
  - vm_compute. repeat split; try reflexivity. repeat constructor.
Qed.

Print Assumptions C12_disjoint.
Print Assumptions C12_aligned.
Print Assumptions C12_carry_refuted.
Print Assumptions C12_seq_replay.
Print Assumptions C12_disjoint_static.
