(* C07 — Items are never served after their TTL has elapsed.  Statements only. *)
From stdpp Require Import gmap.
From Ristretto Require Import Base.Word Cache.Policy Cache.Store Cache.StoreProofs Cache.Machine Cache.MachineProofs.
Local Open Scope Z_scope.

(* The read section (Get, the first read of GetTTL, every visit of IterValues) tests the expiration stored with
   the entry against the current time, whether or not the sweep has run: an entry whose instant has passed is
   not yielded ... *)
Theorem C07_no_stale_read : forall st now k cf it,
  st !! k = Some it -> si_exp it <> 0 -> si_exp it < now -> store_get st now k cf = (0%N, false).
Proof. exact store_get_no_stale. Qed.

Theorem C07_no_stale_iter : forall st now v, In v (store_iter st now) ->
  exists k it, st !! k = Some it /\ si_val it = v /\ (si_exp it = 0 \/ now <= si_exp it).
Proof. exact store_iter_unexpired. Qed.

(* ... and the TTL alone never hides an entry before that instant. *)
Theorem C07_not_early : forall st now k cf it,
  st !! k = Some it -> (cf = 0%N \/ cf = si_conf it) -> (si_exp it = 0 \/ now <= si_exp it) ->
  store_get st now k cf = (si_val it, true).
Proof. exact store_get_not_early. Qed.

(* On the machine, for every schedule: a Get that returns v was called no later than the expiration instant
   (call time of the SetWithTTL that supplied v, plus its ttl) — i.e. a Get that starts after that instant never
   yields the item, whatever the applier and the sweep have done. *)
Theorem C07_no_stale : forall c maxCost bdur now0 mon sched l1 l2 tid k cf v, 0 < now0 ->
  s_log (mrun c (init_state maxCost bdur now0 mon) sched) = l1 ++ ERet tid (OGet k cf) (RVal v true) :: l2 ->
  exists now rest cf' tid' cost ttl t,
    l2 = ECall tid (OGet k cf) now :: rest /\
    In (ECall tid' (OSet k cf' v cost ttl) t) rest /\ 0 <= ttl /\ (ttl = 0 \/ now <= t + ttl).
Proof.
  intros c maxCost bdur now0 mon sched l1 l2 tid k cf v Hpos Hlog.
  pose proof (pv_log _ (reachable_prov c maxCost bdur now0 mon sched Hpos)) as H.
  rewrite Hlog in H. apply log_ok_split in H. simpl in H.
  destruct H as (cf' & exp & now & rest & -> & Hc & (tid' & cost & ttl & t & Hin & Httl & Hexp) & He).
  exists now, rest, cf', tid', cost, ttl, t. repeat split; auto.
  assert (Ht : 0 < t).
  { pose proof (pv_times _ (reachable_prov c maxCost bdur now0 mon sched Hpos)) as Htm.
    rewrite Hlog in Htm. apply (Htm tid' (OSet k cf' v cost ttl) t).
    apply in_or_app. right. right. now right. }
  unfold exp_of in Hexp. destruct (Z.eqb_spec ttl 0); [now left|right]. lia.
Qed.

(* GetTTL: a positive remaining time is no larger than the ttl of a logged write of that key. *)
Theorem C07_ttl_bound : forall c maxCost bdur now0 mon sched l1 l2 tid k cf d, 0 < now0 ->
  s_log (mrun c (init_state maxCost bdur now0 mon) sched) = l1 ++ ERet tid (OGetTTL k cf) (RTtl d true) :: l2 ->
  d = 0 \/ exists tid' cf' v cost ttl t, In (ECall tid' (OSet k cf' v cost ttl) t) l2 /\ 0 < d <= ttl.
Proof.
  intros c maxCost bdur now0 mon sched l1 l2 tid k cf d Hpos Hlog.
  pose proof (pv_log _ (reachable_prov c maxCost bdur now0 mon sched Hpos)) as H.
  rewrite Hlog in H. apply log_ok_split in H. exact H.
Qed.

(* A negative ttl stores nothing and returns false: the call changes only the ghost log. *)
Theorem C07_negative : forall c s tid k cf v cost ttl s',
  ttl < 0 -> mstep c s (LCall tid (OSet k cf v cost ttl)) = Some s' ->
  s_store s' = s_store s /\ s_em s' = s_em s /\ s_pol s' = s_pol s /\ s_buf s' = s_buf s /\
  exists t, s_log s' = ERet tid (OSet k cf v cost ttl) (RBool false) :: ECall tid (OSet k cf v cost ttl) t :: s_log s.
Proof.
  intros c s tid k cf v cost ttl s' Hneg H.
  unfold mstep in H. destruct (s_panic s); [discriminate|].
  destruct (t_op (get_thread s tid)); [discriminate|]. destruct (t_pend (get_thread s tid)); [|discriminate].
  inversion H; subst; clear H. unfold start_call. msimpl.
  destruct (s_closed s); msimpl; [eauto 10|].
  destruct (Z.ltb_spec ttl 0); [|lia]. msimpl. eauto 10.
Qed.

(* The expiration attached to a stored entry is the call time plus the ttl of the write that supplied its value. *)
Theorem C07_exp_fixed : forall c maxCost bdur now0 mon sched k it, 0 < now0 ->
  let s := mrun c (init_state maxCost bdur now0 mon) sched in
  s_store s !! k = Some it ->
  exists tid cost ttl t, In (ECall tid (OSet k (si_conf it) (si_val it) cost ttl) t) (s_log s) /\ 0 <= ttl /\
                         si_exp it = (if ttl =? 0 then 0 else t + ttl) /\ t <= s_now s.
Proof.
  intros c maxCost bdur now0 mon sched k it Hpos s Hl.
  pose proof (reachable_prov c maxCost bdur now0 mon sched Hpos) as [Hst _ _ _ _ Htm _].
  destruct (Hst _ _ Hl) as (tid & cost & ttl & t & Hin & Httl & Hexp).
  exists tid, cost, ttl, t. repeat split; auto. eapply Htm; eauto.
Qed.

Definition c07_cfg : cfg :=
  {| c_cap := 4; c_bdur := 5; c_ignore_internal := true; c_item_size := 56; c_should := fun _ _ => true;
     c_costfn := None |}.
Definition c07_sched : list label :=
  [LCall 1 (OSet 7 100 11 5 1000); LStep 1; LStep 1; LApp false []; LApp false []; LApp false []; LApp false [];
   LTime 1000; LCall 2 (OGet 7 100); LTime 1; LCall 3 (OGet 7 100)].
Example C07_nonvacuous :
  exists rest, s_log (mrun c07_cfg (init_state 100 5 5000 true) c07_sched) =
    ERet 3 (OGet 7 100) (RVal 0 false) :: ECall 3 (OGet 7 100) 6001 ::
    ERet 2 (OGet 7 100) (RVal 11 true) :: rest.
Proof. vm_compute. eauto. Qed.

Print Assumptions C07_no_stale.
Print Assumptions C07_ttl_bound.
Print Assumptions C07_exp_fixed.
