(* C04 — Every accepted value leaves through OnExit exactly once.  Statements only.
   Proved here for every schedule in which every Set call carries its own non-zero value:
   at most once, never while retrievable (any schedule); exactly once / refused values silent / OnEvict and OnReject
   followed by OnExit (schedules without Close and without primary-hash collisions: the two known findings). *)
From stdpp Require Import gmap.
From Ristretto Require Import Base.Word Cache.Policy Cache.Store Cache.Machine Cache.MachineProofs Cache.SyncProofs
  Cache.OwnProofs Cache.ProtoProofs Cache.ConsProofs.
Local Open Scope nat_scope.

(* OnExit is delivered at most once per value ... *)
Theorem C04_at_most_once : forall c maxCost bdur now0 mon sched v,
  List.NoDup (set_vals sched) -> v <> 0%N ->
  cnt_log (s_log (mrun c (init_state maxCost bdur now0 mon) sched)) v <= 1.
Proof.
  intros c maxCost bdur now0 mon sched v Hnd Hv.
  pose proof (occ_le_one c maxCost bdur now0 mon sched v Hv Hnd) as H. unfold occ in H. lia.
Qed.

Theorem C04_no_second_exit : forall c maxCost bdur now0 mon sched l1 l2 w w' v,
  List.NoDup (set_vals sched) -> v <> 0%N ->
  s_log (mrun c (init_state maxCost bdur now0 mon) sched) = l1 ++ ECb w (CbExit v) :: l2 ->
  ~ In (ECb w' (CbExit v)) l2.
Proof.
  intros c maxCost bdur now0 mon sched l1 l2 w w' v Hnd Hv Hlog.
  pose proof (run_log_own c maxCost bdur now0 mon sched Hnd) as H. rewrite Hlog in H.
  apply log_own_split in H. simpl in H. apply cnt_log_zero. auto.
Qed.

(* ... and never while the value is still retrievable: whenever an OnExit of v is about to be delivered (it is
   pending at a client thread or at the applier), v is in no map entry, in no buffered new item and in no other
   program counter. *)
Theorem C04_never_while_retrievable : forall c maxCost bdur now0 mon sched v,
  List.NoDup (set_vals sched) -> v <> 0%N ->
  let s := mrun c (init_state maxCost bdur now0 mon) sched in
  1 <= cnt_pend (s_apend s) v + cnt_threads (s_threads s) v ->
  cnt_store (s_store s) v = 0 /\ cnt_buf (s_buf s) v = 0 /\ apc_holds (s_apc s) v = 0 /\ cnt_log (s_log s) v = 0.
Proof.
  intros c maxCost bdur now0 mon sched v Hnd Hv s Hp.
  pose proof (occ_le_one c maxCost bdur now0 mon sched v Hv Hnd) as Ho. fold s in Ho. unfold occ in Ho. lia.
Qed.

(* Conservation.  For every schedule without Close in which every call names its key with one conflict hash per key
   hash (no primary-hash collisions) and every Set carries its own value:
     - once Set(v) has returned true, v is held in exactly one place (a map entry, a buffered or in-flight new-item
       record, a pending OnExit) or has been passed to OnExit exactly once, in every later state;
     - once Set(v) has returned false, v is nowhere, and it has not been and will not be passed to OnExit.
   [occ s v] counts the map entries, buffered new items, Set program counters, the applier's item, pending OnExit
   callbacks and delivered OnExit events that carry v. *)
Theorem C04_conservation : forall kc c maxCost bdur now0 mon sched v,
  v <> 0%N -> Forall (lab_c kc) sched -> List.NoDup (set_vals sched) ->
  let s := mrun c (init_state maxCost bdur now0 mon) sched in
  (1 <= accepted (s_log s) v -> occ s v = 1 /\ refused (s_log s) v = 0) /\
  (1 <= refused (s_log s) v -> occ s v = 0).
Proof. exact conservation. Qed.

(* ... hence, when the cache is empty and quiet — as it is when Clear has returned (C15_clear_returns) and nothing
   else is running — every value whose Set returned true has been passed to OnExit exactly once. *)
Theorem C04_released_when_quiet : forall kc c maxCost bdur now0 mon sched v,
  v <> 0%N -> Forall (lab_c kc) sched -> List.NoDup (set_vals sched) ->
  let s := mrun c (init_state maxCost bdur now0 mon) sched in
  1 <= accepted (s_log s) v ->
  s_store s = ∅ -> s_buf s = [] -> s_apc s = AIdle -> s_apend s = [] ->
  (forall tid t, s_threads s !! tid = Some t -> t_pc t = CIdle /\ t_pend t = []) ->
  cnt_log (s_log s) v = 1.
Proof. exact released_when_quiet. Qed.

(* OnEvict and OnReject are always followed, as the very next callback of the same goroutine, by OnExit of the same
   value (so they fire at most once per value, as OnExit does) — every schedule. *)
Theorem C04_evict_then_exit : forall c maxCost bdur now0 mon sched tid o k cf v cost rest s',
  let s := mrun c (init_state maxCost bdur now0 mon) sched in
  s_panic s = false -> t_op (get_thread s tid) = Some o ->
  (t_pend (get_thread s tid) = CbEvict k cf v cost :: rest \/ t_pend (get_thread s tid) = CbReject k cf v cost :: rest) ->
  mstep c s (LStep tid) = Some s' -> exists rest', t_pend (get_thread s' tid) = CbExit v :: rest'.
Proof.
  intros c maxCost bdur now0 mon sched tid o k cf v cost rest s' s. apply evict_then_exit. apply reachable_pair.
Qed.
Theorem C04_evict_then_exit_applier : forall c maxCost bdur now0 mon sched k cf v cost rest s' orders,
  let s := mrun c (init_state maxCost bdur now0 mon) sched in
  s_panic s = false ->
  (s_apend s = CbEvict k cf v cost :: rest \/ s_apend s = CbReject k cf v cost :: rest) ->
  mstep c s (LApp false orders) = Some s' -> exists rest', s_apend s' = CbExit v :: rest'.
Proof.
  intros c maxCost bdur now0 mon sched k cf v cost rest s' orders s. apply evict_then_exit_app. apply reachable_pair.
Qed.

(* Not provable, because false of the code (known findings, replayed on every run): with two live keys sharing the
   primary hash a value can vanish silently (hence [label_kc]), and a Set that overlaps Close is never released
   (hence [label_noclose]). *)
Definition c04_cfg : cfg :=
  {| c_cap := 4; c_bdur := 5; c_ignore_internal := true; c_item_size := 56; c_should := fun _ _ => true;
     c_costfn := None |}.
Definition c04_sched : list label :=
  [LCall 1 (OSet 7 100 11 60 0); LStep 1; LStep 1; LApp false []; LApp false []; LApp false []; LApp false [];
   LCall 1 (OSet 8 200 12 60 0); LStep 1; LStep 1;
   LApp false []; LApp false []; LApp false []; LApp false []; LApp false []; LApp false []; LApp false []].
Example C04_nonvacuous :
  List.NoDup (set_vals c04_sched) /\
  cnt_log (s_log (mrun c04_cfg (init_state 100 5 1000 true) c04_sched)) 11 = 1.
Proof. split; [repeat constructor; simpl; intuition discriminate|]. vm_compute. reflexivity. Qed.

Print Assumptions C04_at_most_once.
Print Assumptions C04_never_while_retrievable.
Print Assumptions C04_conservation.
