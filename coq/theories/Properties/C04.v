(* C04 — Every accepted value leaves through OnExit exactly once.  Statements only.
   Proved here for every schedule in which every Set call carries its own non-zero value:
   at most once, never while retrievable.  See the end of the file for what is not proved (partial). *)
From stdpp Require Import gmap.
From Ristretto Require Import Base.Word Cache.Policy Cache.Store Cache.Machine Cache.MachineProofs Cache.SyncProofs
  Cache.OwnProofs.
Local Open Scope nat_scope.

(* OnExit is delivered at most once per value ... *)
Theorem C04_at_most_once : forall c maxCost bdur now0 mon sched v,
  List.NoDup (set_vals sched) -> v <> 0%N ->
  cnt_log (s_log (mrun c (init_state maxCost bdur now0 mon) sched)) v <= 1.
Proof.
  intros c maxCost bdur now0 mon sched v Hnd Hv.
  pose proof (occ_le_one c maxCost bdur now0 mon sched v Hv Hnd) as H. unfold occ in H. lia.
Qed.

Theorem C04_no_second_exit : forall c maxCost bdur now0 mon sched l1 l2 w w' v,
  List.NoDup (set_vals sched) -> v <> 0%N ->
  s_log (mrun c (init_state maxCost bdur now0 mon) sched) = l1 ++ ECb w (CbExit v) :: l2 ->
  ~ In (ECb w' (CbExit v)) l2.
Proof.
  intros c maxCost bdur now0 mon sched l1 l2 w w' v Hnd Hv Hlog.
  pose proof (run_log_own c maxCost bdur now0 mon sched Hnd) as H. rewrite Hlog in H.
  apply log_own_split in H. simpl in H. apply cnt_log_zero. auto.
Qed.

(* ... and never while the value is still retrievable: whenever an OnExit of v is about to be delivered (it is
   pending at a client thread or at the applier), v is in no map entry, in no buffered new item and in no other
   program counter. *)
Theorem C04_never_while_retrievable : forall c maxCost bdur now0 mon sched v,
  List.NoDup (set_vals sched) -> v <> 0%N ->
  let s := mrun c (init_state maxCost bdur now0 mon) sched in
  1 <= cnt_pend (s_apend s) v + cnt_threads (s_threads s) v ->
  cnt_store (s_store s) v = 0 /\ cnt_buf (s_buf s) v = 0 /\ apc_holds (s_apc s) v = 0 /\ cnt_log (s_log s) v = 0.
Proof.
  intros c maxCost bdur now0 mon sched v Hnd Hv s Hp.
  pose proof (occ_le_one c maxCost bdur now0 mon sched v Hv Hnd) as Ho. fold s in Ho. unfold occ in Ho. lia.
Qed.

(* The conservation half of the property (a value whose Set returned true is delivered to OnExit no later than the
   next Clear/Close; refused values are silent; OnEvict/OnReject at most once and followed by OnExit) is NOT proved
   in Coq in this development: it is false of the faithful machine for colliding primary hashes and for a Set that
   overlaps Close (known findings, see KNOWN_FINDINGS.txt), and the guarded statement needs an exact-count
   strengthening of [occ] that has not been done.  Those clauses are checked by the oracle of the C04 check on the
   implementation's callbacks (lib/props/c04.py). *)
Definition c04_cfg : cfg :=
  {| c_cap := 4; c_bdur := 5; c_ignore_internal := true; c_item_size := 56; c_should := fun _ _ => true;
     c_costfn := None |}.
Definition c04_sched : list label :=
  [LCall 1 (OSet 7 100 11 60 0); LStep 1; LStep 1; LApp false []; LApp false []; LApp false []; LApp false [];
   LCall 1 (OSet 8 200 12 60 0); LStep 1; LStep 1;
   LApp false []; LApp false []; LApp false []; LApp false []; LApp false []; LApp false []; LApp false []].
Example C04_nonvacuous :
  List.NoDup (set_vals c04_sched) /\
  cnt_log (s_log (mrun c04_cfg (init_state 100 5 1000 true) c04_sched)) 11 = 1.
Proof. split; [repeat constructor; simpl; intuition discriminate|]. vm_compute. reflexivity. Qed.

Print Assumptions C04_at_most_once.
Print Assumptions C04_never_while_retrievable.
