(* C06 — with room to spare the cache is a faithful map; Wait makes writes visible.  Statements only. *)
From stdpp Require Import gmap.
From Ristretto Require Import Base.Word Cache.Policy Cache.PolicyProofs Cache.Store Cache.Machine Cache.MachineProofs
  Cache.SyncProofs Cache.DelProofs Cache.WaitProofs Cache.RoomProofs Cache.FaithProofs.
Local Open Scope Z_scope.

(* "Room to spare": every key comes from a finite set K, every effective cost (cost, or Config.Cost(value) when 0,
   plus the internal item size unless IgnoreInternalCost) lies in [0,B], and |K|*B <= MaxCost (also after
   UpdateMaxCost).  Then, in every state reachable without Clear/Close, the policy never evicts and never rejects a
   new key: every Add either finds the key accounted (cost update) or takes the fast path. *)
Theorem C06_never_evicts : forall cf K B maxCost bdur now0 mon sched,
  Z.of_nat (size K) * B <= maxCost ->
  Forall (fun l => lab_nc l /\ lab_room cf K B l) sched ->
  let s := mrun cf (init_state maxCost bdur now0 mon) sched in
  match s_apc s with ANewSet _ vs | AVict vs => vs = [] | _ => True end /\
  forall orders i vs added p m r rej, s_apc s = AGot i -> it_flag i = FNew ->
    pol_add orders (s_est s) (s_pol s) (s_met s) (it_key i) (it_cost i) = AddOk vs added p m r rej ->
    vs = [] /\ (added = true <-> p_costs (s_pol s) !! it_key i = None).
Proof.
  intros cf K B maxCost bdur now0 mon sched Hmax HL s.
  assert (H : base_inv s /\ Rinv cf K B s).
  { apply (mrun_invariant_lab cf (fun l => lab_nc l /\ lab_room cf K B l) (fun s => base_inv s /\ Rinv cf K B s)); auto.
    - intros s0 l s' (Hn & Hr) [Hb HR] Hs. split; [eapply step_base|eapply step_R]; eauto.
    - split; [apply init_base|now apply init_R]. }
  destruct H as [Hb Hr]. split.
  - pose proof (r_apc _ _ _ _ Hr) as Ha. destruct (s_apc s); auto.
  - intros orders i vs added p m r rej Ea Hf E. pose proof (r_apc _ _ _ _ Hr) as Ha. rewrite Ea in Ha.
    destruct (Ha ltac:(congruence)) as [Hk Hc].
    destruct (R_add K B _ _ _ _ _ _ _ _ _ _ _ _ (conj (r_dom _ _ _ _ Hr) (r_max _ _ _ _ Hr)) (r_ok _ _ _ _ Hr) Hk Hc E)
      as (J1 & _ & _ & J5). auto.
Qed.

(* The main statement, for any number of goroutines and every schedule (= every lag of the applier between any two
   steps, sweeps, clock advances, activity on other keys):
     s0  reachable with room to spare; Set(k,c,v) with expiration e has found k not resident (its item is a new-item
         record) and is about to send it; k is not resident and not pending (nothing in the write buffer or in the
         applier's hands concerns k, no other goroutine is inside a Set/Del of k), the buffer is not full;
     s1  the item is sent: Set returns true;
     sched1, sched2: anything but a Set/Del of k, Clear, Close (still with room to spare);
     s2 -> s3  some goroutine sends the marker of a Wait;  s4: that Wait has returned.
   Then Get(k,c) in s4 returns exactly v — provided the TTL has not elapsed (e = 0 or now < e).  As s4 is any such
   state, the entry stays retrievable until it is overwritten, deleted, cleared or its TTL elapses. *)
Theorem C06_visible_after_wait :
  forall cf K B kc maxCost bdur now0 mon k c v e sched0 ts o i0 sched1 tw ow sched2 tg s1 s3 s5,
  Z.of_nat (size K) * B <= maxCost ->
  Forall (lab0 cf K B kc) sched0 ->
  let s0 := mrun cf (init_state maxCost bdur now0 mon) sched0 in
  t_op (get_thread s0 ts) = Some o -> t_pend (get_thread s0 ts) = [] -> t_pc (get_thread s0 ts) = CSetSend i0 ->
  is0 k c v e i0 ->
  (forall tid t, s_threads s0 !! tid = Some t -> tid <> ts -> quiet_pc k (t_pc t)) ->
  Forall (kfree k) (held (s_apc s0) ++ s_buf s0) -> s_store s0 !! k = None ->
  (length (s_buf s0) < c_cap cf)%nat ->
  mstep cf s0 (LStep ts) = Some s1 ->
  Forall (lab1 cf K B k) sched1 ->
  let s2 := mrun cf s1 sched1 in
  t_op (get_thread s2 tw) = Some ow -> t_pend (get_thread s2 tw) = [] -> t_pc (get_thread s2 tw) = CWaitSend ->
  mstep cf s2 (LStep tw) = Some s3 ->
  Forall (lab1 cf K B k) sched2 ->
  let s4 := mrun cf s3 sched2 in
  t_op (get_thread s4 tw) = None -> (e = 0 \/ s_now s4 < e) ->
  mstep cf s4 (LCall tg (OGet k c)) = Some s5 ->
  s_log s1 = ERet ts o (RBool true) :: s_log s0 /\
  s_log s5 = ERet tg (OGet k c) (RVal v true) :: ECall tg (OGet k c) (s_now s4) :: s_log s4.
Proof. exact faithful. Qed.

(* "Wait() returns only after every write buffered before it has been applied."  V = the value identifiers of those
   writes: no goroutine is about to send a record carrying one of them when the Wait's marker is sent, and no later
   Set uses one.  Then, for every schedule without Clear / Close, once that Wait has returned none of these records
   is in the write buffer or in the applier's hands: each has been taken out of the FIFO and processed by the applier.
   [later V i]: the record i carries no value of V. *)
Theorem C06_wait_drains : forall c maxCost bdur now0 mon (V : gset N) sched0 tw o s1 sched,
  0%N ∉ V -> Forall lab_nc sched0 ->
  let s0 := mrun c (init_state maxCost bdur now0 mon) sched0 in
  thr_later V (s_threads s0) ->
  t_op (get_thread s0 tw) = Some o -> t_pend (get_thread s0 tw) = [] -> t_pc (get_thread s0 tw) = CWaitSend ->
  mstep c s0 (LStep tw) = Some s1 ->
  Forall (lab_v V) sched ->
  let s2 := mrun c s1 sched in
  t_op (get_thread s2 tw) = None ->
  Forall (later V) (held (s_apc s2) ++ s_buf s2).
Proof. exact wait_drains. Qed.

(* the marker invariant behind C06_visible_after_wait, preserved by every step *)
Theorem C06_wait_fifo : forall cf K B k c v e tw id s l s',
  lab_f k l -> lab_room cf K B l -> FW cf K B k c v e tw id s -> mstep cf s l = Some s' -> FW cf K B k c v e tw id s'.
Proof. exact step_FW. Qed.

(* an overwrite of a resident key is visible to Get immediately *)
Theorem C06_overwrite_visible : forall cf s ts o i it s',
  s_panic s = false ->
  t_op (get_thread s ts) = Some o -> t_pend (get_thread s ts) = [] -> t_pc (get_thread s ts) = CSetUpd i ->
  s_store s !! it_key i = Some it -> conf_ok (it_conf i) (si_conf it) = true ->
  c_should cf (it_val i) (si_val it) = true ->
  (it_exp i = 0 \/ s_now s <= it_exp i) ->
  mstep cf s (LStep ts) = Some s' ->
  store_get (s_store s') (s_now s') (it_key i) (it_conf i) = (it_val i, true) /\
  t_pc (get_thread s' ts) = CSetSend (set_flag i FUpd) /\ t_pend (get_thread s' ts) = [CbExit (si_val it)].
Proof. exact overwrite_visible. Qed.

(* non-vacuity: three keys of cost 30 in a cache of MaxCost 100; a Set of key 7 is buffered behind another key's
   insert, a Wait is issued, the applier catches up; all hypotheses hold along the way and Get returns the value *)
Example C06_nonvacuous :
  let cf := {| c_cap := 8; c_bdur := 5; c_ignore_internal := true; c_item_size := 0; c_should := fun _ _ => true;
               c_costfn := None |} in
  let sched0 := [LCall 1 (OSet 5 50 100 30 0); LStep 1; LStep 1; LCall 1 (OSet 7 70 101 30 0); LStep 1] in
  let s0 := mrun cf (init_state 100 5 1000 true) sched0 in
  let s1 := mrun cf s0 [LStep 1] in
  let s2 := mrun cf s1 [LApp false []; LCall 3 OWait] in
  let s3 := mrun cf s2 [LStep 3] in
  let s4 := mrun cf s3 [LApp false []; LApp false []; LApp false []; LApp false []; LApp false []; LApp false [];
                        LApp false []; LApp false []; LApp false []; LApp false []; LStep 3] in
  (exists i0, t_pc (get_thread s0 1) = CSetSend i0 /\ it_flag i0 = FNew /\ it_key i0 = 7%N /\ it_val i0 = 101%N) /\
  s_store s0 !! 7%N = None /\ length (s_buf s0) = 1%nat /\
  t_pc (get_thread s2 3) = CWaitSend /\ t_op (get_thread s4 3) = None /\
  store_get (s_store s4) (s_now s4) 7 70 = (101%N, true).
Proof. vm_compute. split; [eexists; repeat split|]; repeat split; reflexivity. Qed.
