From Ristretto Require Import Cache.Machine.
Theorem C13_placeholder : True.
Proof. exact I. Qed.
