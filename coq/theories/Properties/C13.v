(* C13 — The map, the capacity accounting and IterValues agree on what is resident.  Statements only. *)
From stdpp Require Import gmap.
From Ristretto Require Import Base.Word Cache.Policy Cache.PolicyProofs Cache.Store Cache.StoreProofs Cache.Machine
  Cache.MachineProofs Cache.ExpProofs Cache.SyncProofs.
Local Open Scope Z_scope.

(* Runs without colliding live keys: every call names a primary hash with the one conflict hash [kc] assigns to
   it.  Quiescent = write buffer empty, applier idle with no callback to deliver, no client inside a call. *)

(* For every such schedule — any number of threads, evictions, rejections, expiries, buffer-full drops, Clear,
   every applier and sweep lag — at every quiescent state the keys the accounting charges for are exactly the keys
   held in the map. *)
Theorem C13_agree : forall kc c maxCost bdur now0 mon sched,
  Forall (label_kc kc) sched ->
  let s := mrun c (init_state maxCost bdur now0 mon) sched in
  quiescent s -> forall k, is_Some (s_store s !! k) <-> is_Some (p_costs (s_pol s) !! k).
Proof.
  intros kc c maxCost bdur now0 mon sched HL s Hq.
  apply quiescent_agree; auto. apply (cv_sync _ _ (reachable_sync kc c maxCost bdur now0 mon sched HL)).
Qed.

(* In ALL reachable states (not only quiescent ones) a disagreement is always explained by work in flight:
   a key in the map but not accounted is a victim the applier is about to remove or a tombstone it is applying;
   an accounted key not in the map is being added, being swept, or has a pending tombstone. *)
Theorem C13_in_flight : forall kc c maxCost bdur now0 mon sched,
  Forall (label_kc kc) sched ->
  let s := mrun c (init_state maxCost bdur now0 mon) sched in
  ~ clr_busy (s_threads s) ->
  (forall k, is_Some (s_store s !! k) ->
     is_Some (p_costs (s_pol s) !! k) \/ k ∈ vict_keys (s_apc s) \/ deleting (s_apc s) k) /\
  (forall k, is_Some (p_costs (s_pol s) !! k) ->
     is_Some (s_store s !! k) \/ adding (s_apc s) k \/ sweeping (s_apc s) k \/
     tomb_pending (s_buf s) (s_apc s) (s_threads s) k).
Proof.
  intros kc c maxCost bdur now0 mon sched HL s Hnb.
  destruct (cv_sync _ _ (reachable_sync kc c maxCost bdur now0 mon sched HL)) as [H1 H2 _ _ _ _ _ _].
  split; [exact (H1 Hnb)|exact (H2 Hnb)].
Qed.

(* IterValues (one instant over the map) yields exactly the values of the unexpired entries, each entry once. *)
Theorem C13_iter : forall (st : store) now,
  exists l, NoDup (l.*1) /\
    (forall k it, (k, it) ∈ l <-> st !! k = Some it /\ (si_exp it = 0 \/ now <= si_exp it)) /\
    store_iter st now = List.map (fun kv => si_val kv.2) l.
Proof.
  intros st now. exists (List.filter (fun kv => negb (expired now (si_exp kv.2))) (map_to_list st)).
  split; [|split; [|reflexivity]].
  - pose proof (NoDup_fst_map_to_list st) as Hnd. revert Hnd. generalize (map_to_list st) as l.
    induction l as [|[k it] l IH]; simpl; intros Hnd; [constructor|].
    inversion Hnd as [|? ? Hnin Hnd']; subst.
    destruct (negb (expired now (si_exp it))); simpl; auto.
    constructor; auto. intros Hin. apply Hnin.
    apply in_map_iff in Hin. destruct Hin as ([k' it'] & Hk & Hin). simpl in Hk. subst k'.
    apply elem_of_list_fmap. exists (k, it'). split; auto.
    apply filter_In in Hin. apply elem_of_list_In. tauto.
  - intros k it. rewrite elem_of_list_In, filter_In, <- elem_of_list_In, elem_of_map_to_list. simpl.
    unfold expired. destruct (Z.eqb_spec (si_exp it) 0); destruct (Z.ltb_spec (si_exp it) now); simpl; intuition; lia.
Qed.

(* After every key has been deleted, expired-and-swept or cleared (the map is empty at a quiescent point),
   RemainingCost() equals MaxCost and nothing is enumerated. *)
Theorem C13_empty : forall kc c maxCost bdur now0 mon sched,
  Forall (label_kc kc) sched ->
  let s := mrun c (init_state maxCost bdur now0 mon) sched in
  quiescent s -> (forall k, s_store s !! k = None) ->
  pol_cap (s_pol s) = p_max (s_pol s) /\ store_iter (s_store s) (s_now s) = [].
Proof.
  intros kc c maxCost bdur now0 mon sched HL s Hq Hemp.
  pose proof (reachable_sync kc c maxCost bdur now0 mon sched HL) as [_ _ Hpok Hsy].
  assert (HP : p_costs (s_pol s) = ∅).
  { apply map_empty. intros k. destruct (p_costs (s_pol s) !! k) eqn:E; auto.
    assert (Hs : is_Some (s_store s !! k)) by (apply (quiescent_agree s Hsy Hq); rewrite E; eauto).
    rewrite Hemp in Hs. destruct Hs; discriminate. }
  split.
  - rewrite pol_cap_spec by exact Hpok. rewrite HP, sum_costs_empty. lia.
  - assert (Hs : s_store s = ∅) by (apply map_empty; exact Hemp). rewrite Hs. unfold store_iter.
    now rewrite map_to_list_empty.
Qed.

(* Non-vacuity: a schedule with an admission, an eviction and a delete that ends quiescent. *)
Definition c13_cfg : cfg :=
  {| c_cap := 4; c_bdur := 5; c_ignore_internal := true; c_item_size := 56; c_should := fun _ _ => true;
     c_costfn := None |}.
Definition c13_sched : list label :=
  [LCall 1 (OSet 7 100 11 60 0); LStep 1; LStep 1; LApp false []; LApp false []; LApp false []; LApp false [];
   LCall 1 (OSet 8 200 12 60 0); LStep 1; LStep 1;
   LApp false []; LApp false []; LApp false []; LApp false []; LApp false []; LApp false []; LApp false [];
   LCall 2 (ODel 8 200); LStep 2; LStep 2; LStep 2; LApp false []; LApp false []; LApp false []; LApp false []].
Example C13_nonvacuous :
  let s := mrun c13_cfg (init_state 100 5 1000 true) c13_sched in
  Forall (label_kc (fun k => (k * 0 + (if (k =? 7)%N then 100 else 200))%N)) c13_sched /\
  s_buf s = [] /\ s_apc s = AIdle /\ s_apend s = [] /\ map_to_list (s_store s) = [] /\
  exists rest, s_log s = ECb None (CbExit 0) :: ERet 2 (ODel 8 200) RUnit :: ECb (Some 2%nat) (CbExit 12) ::
                         ECall 2 (ODel 8 200) 1000 :: ECb None (CbExit 11) :: ECb None (CbEvict 7 100 11 60) :: rest.
Proof. vm_compute. repeat split; try (repeat constructor). eauto. Qed.

Print Assumptions C13_agree.
Print Assumptions C13_in_flight.
Print Assumptions C13_empty.
