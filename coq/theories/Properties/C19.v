(* C19 — Bloom filter: no false negatives, faithful serialization.  Statements only. *)
From Ristretto Require Import Base.Word Bloom.Bloom Bloom.BloomProofs.
Open Scope N_scope.

(* A constructed filter: for every entries <= 2^63 and every number of locations the constructor yields
   a well-formed, empty filter whose size is the smallest power of two >= max entries 512. *)
Theorem C19_new : forall entries locs, entries <= two63 ->
  exists b, bloom_new entries locs = Some b /\ bl_made b /\ bl_locs b = locs /\
            entries <= bl_size b + 1 /\ Forall (fun x => x = 0) (bl_bits b).
Proof. exact bloom_new_made. Qed.

Theorem C19_getsize : forall x, x <= two63 ->
  exists k, get_size x = Some (2 ^ k, k) /\ 9 <= k <= 63 /\ x <= 2 ^ k /\ 512 <= 2 ^ k /\
            (k = 9 \/ 2 ^ (k - 1) < x).
Proof. exact get_size_spec. Qed.

(* No false negatives: an added hash is present, and stays present under further Adds — for every
   size, number of locations and hash (including hashes whose halves are 0 or all ones). *)
Theorem C19_no_false_negative : forall b h, bl_wf b -> bl_has (bl_add b h) h = true.
Proof. exact bl_has_add_same. Qed.

Theorem C19_add_preserves : forall b h h', bl_wf b -> bl_has b h' = true -> bl_has (bl_add b h) h' = true.
Proof. exact bl_has_add_mono. Qed.

Theorem C19_add_wf : forall b h, bl_wf b -> bl_wf (bl_add b h).
Proof. exact bl_add_wf. Qed.

(* AddIfNotHas returns true exactly when Has was false, and makes Has true, losing nothing. *)
Theorem C19_add_if_not_has : forall b h, bl_wf b ->
  fst (bl_add_if_not_has b h) = negb (bl_has b h) /\
  bl_has (snd (bl_add_if_not_has b h)) h = true /\
  bl_wf (snd (bl_add_if_not_has b h)) /\
  (forall h', bl_has b h' = true -> bl_has (snd (bl_add_if_not_has b h)) h' = true).
Proof. exact bl_add_if_not_has_spec. Qed.

(* Clear empties the filter (with at least one location; with none every hash is trivially present). *)
Theorem C19_clear : forall b h, 1 <= bl_locs b -> bl_has (bl_clear b) h = false.
Proof. exact bl_has_clear. Qed.

(* JSONMarshal then JSONUnmarshal gives back the very same filter (bytes, size, locations, shift), hence
   the same answer of Has for every hash.  encoding/json is trusted to round-trip ([]byte, uint64). *)
Theorem C19_json : forall b, bl_made b -> bl_unmarshal (fst (bl_marshal b)) (snd (bl_marshal b)) = Some b.
Proof. exact bl_unmarshal_marshal. Qed.

Theorem C19_made_wf : forall b, bl_made b -> bl_wf b.
Proof. exact bl_made_wf. Qed.

Definition c19_example : bloom :=
  {| bl_bits := repeat 0 128; bl_sizeExp := 10; bl_size := 1023; bl_locs := 3; bl_shift := 54 |}.
Example C19_nonvacuous :
  bloom_new 1000 3 = Some c19_example /\ bl_made c19_example /\
  bl_has (bl_add c19_example 18446744073709551615) 18446744073709551615 = true /\
  bl_has (bl_add c19_example 18446744073709551615) 12345 = false.
Proof.
  split; [vm_compute; reflexivity|]. split.
  - unfold bl_made, c19_example; cbn [bl_sizeExp bl_size bl_shift bl_bits].
    repeat split; try (vm_compute; congruence); vm_compute; reflexivity.
  - split; vm_compute; reflexivity.
Qed.

Print Assumptions C19_no_false_negative.
Print Assumptions C19_json.
Print Assumptions C19_getsize.
