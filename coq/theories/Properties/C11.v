(* C11 — z.Buffer returns what was written, in order, and sorts correctly.  Statements only.
   Model: Buffer/Buffer.v, Buffer/Sort.v; reference: Buffer/BufferSpec.v. *)
From Ristretto Require Import Base.Word Buffer.Buffer Buffer.BufferSpec Buffer.BufferProofs Buffer.Sort
  Buffer.SortProofs.
From Coq Require Import Permutation.
Open Scope N_scope.

(* Every buffer a constructor gives is well-formed and its unused memory is zero: for every capacity,
   both modes, every auto-mmap threshold and every size limit. *)
Theorem C11_constructors : forall capacity,
  wf (new_buffer capacity) /\ clean (new_buffer capacity) /\
  wf (new_buffer_tmp capacity) /\ clean (new_buffer_tmp capacity) /\
  (forall b t b', wf b -> with_auto_mmap b t = Some b' -> wf b' /\ bytes b' = bytes b /\ b_rest b' = b_rest b) /\
  (forall b s, wf b -> wf (with_max_size b s) /\ bytes (with_max_size b s) = bytes b /\
               b_rest (with_max_size b s) = b_rest b).
Proof.
  intros c. split; [apply wf_new|]. split; [apply clean_new|]. split; [apply wf_new|].
  split; [apply clean_new|]. split.
  - intros b t b' W H. split; [eapply wf_with_auto; eauto|].
    unfold with_auto_mmap in H; destruct (b_mode b); inversion H; now subst.
  - intros b s W. split; [now apply wf_with_max_size|now split].
Qed.

(* Bytes() = everything written since the last Reset, in order — for every sequence of Write, WriteSlice,
   Allocate, AllocateOffset, SliceAllocate, Grow and Reset, every initial state (capacity, mode, auto-mmap
   threshold, size limit), hence across every growth and every calloc->mmap switch those trigger.
   [spec_run] is a plain byte list (BufferSpec.v).  A refused operation (size limit) contributes nothing.
   Either the caller overwrites all the memory it allocates ([filled]) or no Reset happened since the
   buffer was created, in which case memory not overwritten reads as zeros. *)
Theorem C11_bytes : forall ops b, wf b ->
  (Forall filled ops \/ (clean b /\ Forall not_reset ops)) ->
  bytes (run ops b) = spec_run (b_maxSz b) ops (bytes b) /\ wf (run ops b).
Proof. intros ops b W H. destruct (run_bytes ops b W H) as (A & B & _). now split. Qed.

(* Without the [filled]/[clean] side condition the statement is false of the code: Reset does not clear, so
   memory allocated after a Reset and not overwritten shows old bytes. *)
Example C11_bytes_stale_refuted : exists ops b, wf b /\
  bytes (run ops b) <> spec_run (b_maxSz b) ops (bytes b).
Proof.
  exists [OWrite [7]; OReset; OAllocate 1 []], (new_buffer 64). split; [apply wf_new|].
  vm_compute. congruence.
Qed.

(* WithMaxSize: the used length never exceeds the limit (a limit below the 8 padding bytes cannot be met by
   an empty buffer, hence max), and an operation is refused exactly when its very first Grow would exceed
   the limit — before anything is modified — and then nothing changes. *)
Theorem C11_maxsize : forall ops b, wf b -> 0 < b_maxSz b -> b_off b <= N.max pad (b_maxSz b) ->
  len_with_padding (run ops b) <= N.max pad (b_maxSz b).
Proof. exact run_maxsize. Qed.

Theorem C11_maxsize_refusal : forall b o, wf b ->
  (step_opt b o = None <->
   o <> OReset /\ 0 < b_maxSz b /\ b_maxSz b < len_with_padding b + op_need o) /\
  (step_opt b o = None -> step b o = b).
Proof.
  intros b o W. split.
  - rewrite (step_opt_none b o W). unfold refused, len_with_padding. split; intros (A & B); split; auto; lia.
  - intros H. unfold step. now rewrite H.
Qed.

(* Slices: the 8-byte big-endian length prefix round-trips for every length below 2^64 ... *)
Theorem C11_length_roundtrip : forall x rest, x < two64 ->
  be64_dec (be64 x ++ rest) = x /\ length (be64 x) = 8%nat.
Proof. intros x rest H. split; [now apply be64_dec_be64|apply be64_length]. Qed.

(* ... a sequence of WriteSlice / SliceAllocate / Reset leaves exactly the encoding of the slices written
   since the last Reset (slices_run: a plain list of byte strings) ... *)
Theorem C11_slices_written : forall ops b, wf b -> bytes b = [] -> Forall slice_op ops ->
  (Forall filled ops \/ (clean b /\ Forall not_reset ops)) ->
  bytes (run ops b) = enc_slices (slices_run (b_maxSz b) ops []) /\
  small_slices (slices_run (b_maxSz b) ops []) /\ wf (run ops b).
Proof.
  intros ops b W HB Hs H. destruct (run_bytes ops b W H) as (Wr & B & _).
  destruct (slices_run_spec (b_maxSz b) ops [] Hs ltac:(constructor)) as (E & S).
  rewrite HB in B. change (@nil N) with (enc_slices []) in B. rewrite E in B. auto.
Qed.

(* ... and every reader gives them back intact and in order: SliceOffsets the offsets, Slice(offset) each
   slice and the next offset (-1 after the last), SliceIterate the non-empty ones. *)
Theorem C11_slices : forall b L, wf b -> bytes b = enc_slices L -> small_slices L ->
  slice_iterate b = Some (filter nonempty L) /\
  (L <> [] -> slice_offsets b = Some (offsets_from pad L) /\ slice_all b = Some L) /\
  (L = [] -> slice_offsets b = Some [pad] /\ slice_all b = Some [[]]) /\
  (forall L1 s L2, L = L1 ++ s :: L2 ->
     slice b (pad + lenN (enc_slices L1)) =
       Some (s, if is_nil L2 then None else Some (pad + lenN (enc_slices L1) + 8 + lenN s))) /\
  (forall off, b_off b <= off -> slice b off = Some ([], None)).
Proof.
  intros b L W HB HL. split; [apply (read_slices b L W HB HL)|]. split; [|split; [|split]].
  - intros Hne. now apply read_offsets_all.
  - intros ->. now apply read_offsets_all_empty.
  - intros L1 s L2 ->. apply read_slice_at; auto.
    unfold small_slices in HL. rewrite Forall_app in HL. destruct HL as (_ & H). now inversion H.
  - apply slice_beyond.
Qed.

(* Sorting.  sort.Slice is [sorter]: any function that returns a permutation of the offsets it is given
   (hypothesis of C11_sort_perm) and that orders them when the comparison is a strict weak order (additional
   hypothesis [sorter_sorts] of C11_sort_sorted).  The buffer holds the slices L0 ++ L ++ L2 and start / end are
   the boundaries of L (start = 8, L0 = L2 = [] is SortSlice).  For EVERY boolean [less] — no order property
   assumed — and every number of slices (any number of 1024-slice chunks) the sort ends normally, the range
   holds a permutation of L afterwards, and everything outside it (the slices before and after, the padding,
   the unused memory, length, capacity, mode, limits) is untouched. *)
Theorem C11_sort_perm :
  forall (sorter : (N * list N -> N * list N -> bool) -> list (N * list N) -> list (N * list N))
         (less : list N -> list N -> bool),
  (forall lt l, Permutation (sorter lt l) l) ->
  forall b L0 L L2 start end_,
  wf b -> bytes b = enc_slices (L0 ++ L ++ L2) -> small_slices (L0 ++ L ++ L2) ->
  start = pad + lenN (enc_slices L0) -> end_ = start + lenN (enc_slices L) ->
  exists b' L', sort_slice_between sorter less b start end_ = SortOk b' /\
    bytes b' = enc_slices (L0 ++ L' ++ L2) /\ Permutation L' L /\ wf b' /\
    b_padb b' = b_padb b /\ b_rest b' = b_rest b /\ b_off b' = b_off b /\ b_curSz b' = b_curSz b /\
    b_maxSz b' = b_maxSz b /\ b_mode b' = b_mode b /\ b_auto b' = b_auto b.
Proof.
  intros sorter less Hp b L0 L L2 start end_ W HB HS Hs He.
  destruct (sort_between_spec sorter less Hp b L0 L L2 start end_ W HB HS Hs He)
    as (b' & L' & H1 & H2 & H3 & H4 & H5 & H6 & H7 & H8 & H9 & H10 & H11 & _).
  exists b', L'. repeat (split; [assumption|]). assumption.
Qed.

(* If less is a strict weak order (and sort.Slice orders under it) no slice of the range is less than its
   predecessor afterwards. *)
Theorem C11_sort_sorted :
  forall (sorter : (N * list N -> N * list N -> bool) -> list (N * list N) -> list (N * list N))
         (less : list N -> list N -> bool),
  (forall lt l, Permutation (sorter lt l) l) -> sorter_sorts sorter -> strict_weak_order less ->
  forall b L0 L L2 start end_,
  wf b -> bytes b = enc_slices (L0 ++ L ++ L2) -> small_slices (L0 ++ L ++ L2) ->
  start = pad + lenN (enc_slices L0) -> end_ = start + lenN (enc_slices L) ->
  exists b' L', sort_slice_between sorter less b start end_ = SortOk b' /\
    bytes b' = enc_slices (L0 ++ L' ++ L2) /\ Permutation L' L /\ sorted_by less L'.
Proof.
  intros sorter less Hp Hsort Hswo b L0 L L2 start end_ W HB HS Hs He.
  destruct (sort_between_spec sorter less Hp b L0 L L2 start end_ W HB HS Hs He)
    as (b' & L' & H1 & H2 & H3 & _ & _ & _ & _ & _ & _ & _ & _ & H12).
  exists b', L'. repeat (split; [assumption|]). now apply H12.
Qed.

(* SortSlice = SortSliceBetween(StartOffset, offset); start >= end does nothing; start = 0 panics. *)
Theorem C11_sort_edges : forall sorter less b start end_,
  sort_slice sorter less b = sort_slice_between sorter less b pad (b_off b) /\
  (end_ <= start -> sort_slice_between sorter less b start end_ = SortOk b) /\
  (0 < end_ -> sort_slice_between sorter less b 0 end_ = SortPanicStartZero).
Proof.
  intros. split; [reflexivity|]. unfold sort_slice_between. split; intros H.
  - now replace (end_ <=? start) with true by lia.
  - now replace (end_ <=? 0) with false by lia.
Qed.

(* The assumptions on sort.Slice are satisfiable: the insertion sort the runner uses meets both. *)
Theorem C11_sorter_exists :
  (forall lt l, Permutation (@insertion_sort (N * list N) lt l) l) /\ sorter_sorts (@insertion_sort (N * list N)).
Proof. split; [apply insertion_sort_perm|apply insertion_sort_sorts]. Qed.

(* A concrete history meeting the hypotheses: a 64-byte calloc buffer with auto-mmap threshold 100 and size
   limit 150 takes four slices (growing 64 -> 136 exactly when offset + n = capacity, and switching to mmap), refuses a fifth,
   reads them back, and sorts them bytewise. *)
Definition c11_b0 : buffer :=
  with_max_size (match with_auto_mmap (new_buffer 0) 100 with Some b => b | None => new_buffer 0 end) 150.
Definition c11_ops : list op :=
  [OWriteSlice [3; 1]; OSliceAllocate 30 (repeat 9 30); OWriteSlice []; OWriteSlice [2]; OWriteSlice (repeat 1 100)].
Example C11_nonvacuous :
  wf c11_b0 /\ clean c11_b0 /\ Forall filled c11_ops /\ Forall slice_op c11_ops /\
  slices_run 150 c11_ops [] = [[3; 1]; repeat 9 30; []; [2]] /\
  b_mode c11_b0 = Calloc /\ b_curSz c11_b0 = 64 /\
  b_mode (run c11_ops c11_b0) = Mmap /\ b_curSz (run c11_ops c11_b0) = 136 /\
  step_opt (run (firstn 4 c11_ops) c11_b0) (OWriteSlice (repeat 1 100)) = None /\
  slice_all (run c11_ops c11_b0) = Some [[3; 1]; repeat 9 30; []; [2]] /\
  slice_iterate (run c11_ops c11_b0) = Some [[3; 1]; repeat 9 30; [2]] /\
  (exists b', sort_slice_exec lex_lt (run c11_ops c11_b0) = SortOk b' /\
              slice_all b' = Some [[]; [2]; [3; 1]; repeat 9 30]) /\
  strict_weak_order len_lt.
Proof.
  split; [unfold wf; vm_compute; auto|].
  split; [unfold clean; vm_compute; repeat constructor|].
  split; [repeat constructor|].
  split; [repeat constructor; vm_compute; reflexivity|].
  repeat (split; [vm_compute; reflexivity|]).
  split.
  - eexists. split; vm_compute; reflexivity.
  - unfold strict_weak_order, len_lt. repeat split; intros; lia.
Qed.

Print Assumptions C11_bytes.
Print Assumptions C11_slices.
Print Assumptions C11_maxsize.
Print Assumptions C11_sort_perm.
Print Assumptions C11_sort_sorted.
