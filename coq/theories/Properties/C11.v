(* C11 — z.Buffer returns what was written, in order, and sorts correctly.  Statements only.
   Model: Buffer/Buffer.v, Buffer/Sort.v; reference: Buffer/BufferSpec.v. *)
From Ristretto Require Import Base.Word Buffer.Buffer Buffer.BufferSpec Buffer.BufferProofs.
From Coq Require Import Permutation.
Open Scope N_scope.

(* Every buffer a constructor gives is well-formed and its unused memory is zero: for every capacity,
   both modes, every auto-mmap threshold and every size limit. *)
Theorem C11_constructors : forall capacity,
  wf (new_buffer capacity) /\ clean (new_buffer capacity) /\
  wf (new_buffer_tmp capacity) /\ clean (new_buffer_tmp capacity) /\
  (forall b t b', wf b -> with_auto_mmap b t = Some b' -> wf b' /\ bytes b' = bytes b /\ b_rest b' = b_rest b) /\
  (forall b s, wf b -> wf (with_max_size b s) /\ bytes (with_max_size b s) = bytes b /\
               b_rest (with_max_size b s) = b_rest b).
Proof.
  intros c. split; [apply wf_new|]. split; [apply clean_new|]. split; [apply wf_new|].
  split; [apply clean_new|]. split.
  - intros b t b' W H. split; [eapply wf_with_auto; eauto|].
    unfold with_auto_mmap in H; destruct (b_mode b); inversion H; now subst.
  - intros b s W. split; [now apply wf_with_max_size|now split].
Qed.

(* Bytes() = everything written since the last Reset, in order — for every sequence of Write, WriteSlice,
   Allocate, AllocateOffset, SliceAllocate, Grow and Reset, every initial state (capacity, mode, auto-mmap
   threshold, size limit), hence across every growth and every calloc->mmap switch those trigger.
   [spec_run] is a plain byte list (BufferSpec.v).  A refused operation (size limit) contributes nothing.
   Either the caller overwrites all the memory it allocates ([filled]) or no Reset happened since the
   buffer was created, in which case memory not overwritten reads as zeros. *)
Theorem C11_bytes : forall ops b, wf b ->
  (Forall filled ops \/ (clean b /\ Forall not_reset ops)) ->
  bytes (run ops b) = spec_run (b_maxSz b) ops (bytes b) /\ wf (run ops b).
Proof. intros ops b W H. destruct (run_bytes ops b W H) as (A & B & _). now split. Qed.

(* Without the [filled]/[clean] side condition the statement is false of the code: Reset does not clear, so
   memory allocated after a Reset and not overwritten shows old bytes. *)
Example C11_bytes_stale_refuted : exists ops b, wf b /\
  bytes (run ops b) <> spec_run (b_maxSz b) ops (bytes b).
Proof.
  exists [OWrite [7]; OReset; OAllocate 1 []], (new_buffer 64). split; [apply wf_new|].
  vm_compute. congruence.
Qed.

(* WithMaxSize: the used length never exceeds the limit (a limit below the 8 padding bytes cannot be met by
   an empty buffer, hence max), and an operation is refused exactly when its very first Grow would exceed
   the limit — before anything is modified — and then nothing changes. *)
Theorem C11_maxsize : forall ops b, wf b -> 0 < b_maxSz b -> b_off b <= N.max pad (b_maxSz b) ->
  len_with_padding (run ops b) <= N.max pad (b_maxSz b).
Proof. exact run_maxsize. Qed.

Theorem C11_maxsize_refusal : forall b o, wf b ->
  (step_opt b o = None <->
   o <> OReset /\ 0 < b_maxSz b /\ b_maxSz b < len_with_padding b + op_need o) /\
  (step_opt b o = None -> step b o = b).
Proof.
  intros b o W. split.
  - rewrite (step_opt_none b o W). unfold refused, len_with_padding. split; intros (A & B); split; auto; lia.
  - intros H. unfold step. now rewrite H.
Qed.

(* Slices: the 8-byte big-endian length prefix round-trips for every length below 2^64 ... *)
Theorem C11_length_roundtrip : forall x rest, x < two64 ->
  be64_dec (be64 x ++ rest) = x /\ length (be64 x) = 8%nat.
Proof. intros x rest H. split; [now apply be64_dec_be64|apply be64_length]. Qed.

(* ... a sequence of WriteSlice / SliceAllocate / Reset leaves exactly the encoding of the slices written
   since the last Reset (slices_run: a plain list of byte strings) ... *)
Theorem C11_slices_written : forall ops b, wf b -> bytes b = [] -> Forall slice_op ops ->
  (Forall filled ops \/ (clean b /\ Forall not_reset ops)) ->
  bytes (run ops b) = enc_slices (slices_run (b_maxSz b) ops []) /\
  small_slices (slices_run (b_maxSz b) ops []) /\ wf (run ops b).
Proof.
  intros ops b W HB Hs H. destruct (run_bytes ops b W H) as (Wr & B & _).
  destruct (slices_run_spec (b_maxSz b) ops [] Hs ltac:(constructor)) as (E & S).
  rewrite HB in B. change (@nil N) with (enc_slices []) in B. rewrite E in B. auto.
Qed.

(* ... and every reader gives them back intact and in order: SliceOffsets the offsets, Slice(offset) each
   slice and the next offset (-1 after the last), SliceIterate the non-empty ones. *)
Theorem C11_slices : forall b L, wf b -> bytes b = enc_slices L -> small_slices L ->
  slice_iterate b = Some (filter nonempty L) /\
  (L <> [] -> slice_offsets b = Some (offsets_from pad L) /\ slice_all b = Some L) /\
  (L = [] -> slice_offsets b = Some [pad] /\ slice_all b = Some [[]]) /\
  (forall L1 s L2, L = L1 ++ s :: L2 ->
     slice b (pad + lenN (enc_slices L1)) =
       Some (s, if is_nil L2 then None else Some (pad + lenN (enc_slices L1) + 8 + lenN s))) /\
  (forall off, b_off b <= off -> slice b off = Some ([], None)).
Proof.
  intros b L W HB HL. split; [apply (read_slices b L W HB HL)|]. split; [|split; [|split]].
  - intros Hne. now apply read_offsets_all.
  - intros ->. now apply read_offsets_all_empty.
  - intros L1 s L2 ->. apply read_slice_at; auto.
    unfold small_slices in HL. rewrite Forall_app in HL. destruct HL as (_ & H). now inversion H.
  - apply slice_beyond.
Qed.
