(* C03 — Admissions never push the accounted cost above MaxCost.  Statements only.
   Cost arithmetic is in unbounded Z: the theorems are about histories in which the accounted costs do not
   overflow int64 (Σ costs < 2^63); outside that regime the code's `used + cost` wraps. *)
From stdpp Require Import gmap.
From Ristretto Require Import Base.Word Cache.Policy Cache.PolicyProofs Cache.Store Cache.Machine Cache.MachineProofs
  Cache.CapProofs Cache.AddRace.
Local Open Scope Z_scope.

(* In every reachable state of the cache machine — every number of client threads, every interleaving with the
   applier and the sweep, every cost, MaxCost, UpdateMaxCost and frequency assignment — RemainingCost() equals
   MaxCost minus the sum of the costs accounted for the resident keys. *)
Theorem C03_accounting : forall c maxCost bdur now mon sched,
  let s := mrun c (init_state maxCost bdur now mon) sched in
  pol_cap (s_pol s) = p_max (s_pol s) - sum_costs (p_costs (s_pol s)).
Proof. intros. apply pol_cap_spec. apply reachable_pol_ok. Qed.

(* Admitting a new key leaves used <= MaxCost (room is made by eviction first), and an item whose cost exceeds
   MaxCost is never admitted. *)
Theorem C03_add_bounded : forall orders est p m key cost vs p' m' rounds rej,
  pol_add orders est p m key cost = AddOk vs true p' m' rounds rej -> pol_ok p ->
  p_costs p !! key = None /\ cost <= p_max p /\ p_used p' <= p_max p' /\ pol_cap p' >= 0.
Proof.
  intros orders est p m key cost vs p' m' rounds rej H Hok.
  destruct (pol_add_spec _ _ _ _ _ _ _ _ _ _ _ _ H Hok) as (_ & _ & _ & _ & Ha & _).
  destruct (Ha eq_refl) as (H1 & H2 & H3 & _). unfold pol_cap. repeat split; auto. lia.
Qed.

(* RemainingCost stays >= 0 across an Add that does not raise the cost of an accounted key (the re-Set of a
   pending or refused key is such a cost update), with non-negative costs. *)
Theorem C03_nonneg_add : forall orders est p m key cost vs added p' m' rounds rej,
  pol_add orders est p m key cost = AddOk vs added p' m' rounds rej -> pol_ok p ->
  0 <= pol_cap p -> (forall prev, p_costs p !! key = Some prev -> cost <= prev) ->
  (forall k c, p_costs p !! k = Some c -> 0 <= c) ->
  0 <= pol_cap p'.
Proof. exact pol_add_cap_nonneg. Qed.

(* The history form.  A run is calm (CapProofs.calm_run) when no step lowers MaxCost, none raises the accounted cost of
   a key that stays accounted (whichever way: an applied overwrite, a second buffered insert of an accounted key, a
   Config.Cost that returns more) and no accounted cost is negative.  At every point of a calm run - drained or not,
   since the accounting only changes inside the policy lock - RemainingCost() >= 0. *)
Theorem C03_remaining_nonneg : forall c maxCost bdur now mon pre post, 0 <= maxCost ->
  calm_run c (init_state maxCost bdur now mon) (pre ++ post) ->
  0 <= pol_cap (s_pol (mrun c (init_state maxCost bdur now mon) pre)).
Proof. exact remaining_nonneg. Qed.

(* the exclusion is necessary: one applied overwrite that raises a resident key's cost takes RemainingCost() to -50 *)
Theorem C03_raise_goes_negative :
  pol_cap (s_pol (mrun cap_cfg (init_state 100 5 1000 true) cap_sched_raise)) = -50.
Proof. exact raise_goes_negative. Qed.

(* non-vacuity of the calm hypothesis: a run with an admission, a cheaper overwrite and an eviction on behalf of a
   newcomer *)
Example C03_calm_nonvacuous :
  calm_run cap_cfg (init_state 100 5 1000 true) cap_sched_calm /\
  map_to_list (p_costs (s_pol (mrun cap_cfg (init_state 100 5 1000 true) cap_sched_calm))) = [(8%N, 70)].
Proof. exact calm_example. Qed.

(* UpdateMaxCost stores the budget atomically without the policy mutex, and Add re-reads it on every turn of its
   eviction loop.  For EVERY stream of budgets Add may see (Cache/AddRace.v: the loop re-stated with one budget per
   read) the loop terminates within the fuel of the atomic model and the accounting stays exact; with the budget
   unchanged it is the loop the machine uses. *)
Theorem C03_add_any_budget_stream : forall maxs orders est p m key cost,
  pol_add_mx maxs orders est p m key cost <> AddOutOfFuel /\
  (forall vs added p' m' r rej, pol_add_mx maxs orders est p m key cost = AddOk vs added p' m' r rej ->
                                pol_ok p -> pol_ok p') /\
  pol_add_mx [] orders est p m key cost = pol_add orders est p m key cost.
Proof.
  intros. split; [apply pol_add_mx_terminates|]. split; [|apply pol_add_mx_const].
  intros vs added p' m' r rej H Hok. exact (pol_add_mx_ok _ _ _ _ _ _ _ _ _ _ _ _ _ H Hok).
Qed.

Example C03_nonvacuous :
  exists p' m' rounds rej, pol_add [] (fun _ => 0) (pol_insert (pol_insert (pol_new 100) 1 60) 2 30) (m_zero true) 3 40
     = AddOk [(1%N, 60)] true p' m' rounds rej /\ pol_cap p' = 30 /\ pol_ok p'.
Proof. vm_compute. eexists _, _, _, _. split; [reflexivity|]. split; reflexivity. Qed.

Print Assumptions C03_accounting.
Print Assumptions C03_add_bounded.
Print Assumptions C03_nonneg_add.
Print Assumptions C03_remaining_nonneg.
Print Assumptions C03_raise_goes_negative.
Print Assumptions C03_add_any_budget_stream.
