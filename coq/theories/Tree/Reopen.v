(* Close / NewTreePersistent on an existing file (Tree.reinit).  Definitions only.

   What survives a clean close is the file: its size (= buffer.curSz, Close does not truncate) and the pages.  Of a
   page only the facts reinit reads are kept:
     PUsed leaf entries : a page holding a node (page-id word != 0), with its leaf bit and its numKeys entries
                          (value slot of an internal entry = child page id);
     PFree next         : a page that was put on the free list: page-id word != 0, word 0 = next free page (0 = end);
     PBlank             : never allocated since the last Reset: all zero, page-id word = 0.
   reinit reads: the page-id word of pages 1,2,.. (frontier scan, bounded by len(data) = file size - 8), the nodes
   reachable from page 1 (Tree.Iterate), and word 0 of every page not reached. *)
From Ristretto Require Import Base.Word Tree.Node Tree.Tree.
Open Scope N_scope.

Inductive pentry :=
| PUsed (leaf : bool) (es : list (N * N))
| PFree (next : N)
| PBlank.

Record pfile := mkFile { pf_page : N -> pentry; pf_size : N }.

(* ---------- persist: the file a clean Close leaves behind ---------- *)
Definition node_entry (t : tree) : pentry :=
  match t with
  | Leaf _ es => PUsed true es
  | Node _ cs => PUsed false (map (fun e => (fst e, pid_of (snd e))) cs)
  end.

(* the page table: the pages of the tree ... *)
Fixpoint ptab (t : tree) : list (N * pentry) :=
  (pid_of t, node_entry t) ::
  match t with
  | Leaf _ _ => []
  | Node _ cs => flat_map (fun e => ptab (snd e)) cs
  end.
(* ... and the pages of the free list, each pointing to the next one (0 = end) *)
Fixpoint ftab (fl : list N) : list (N * pentry) :=
  match fl with
  | [] => []
  | h :: r => (h, PFree (match r with n :: _ => n | [] => 0 end)) :: ftab r
  end.
Fixpoint assoc (p : N) (tab : list (N * pentry)) : pentry :=
  match tab with
  | [] => PBlank
  | x :: r => if fst x =? p then snd x else assoc p r
  end.
Definition page_of (root : tree) (fl : list N) : N -> pentry :=
  let tab := ptab root ++ ftab fl in fun p => assoc p tab.

Section Reopen.
  Variable M : nat.
  Variable ps : N.

  Definition persist (st : tstate) : pfile :=
    mkFile (page_of (root st) (freeList (al st))) (curSz (al st)).

  (* ---------- reinit ---------- *)
  Definition page_id_zero (e : pentry) : bool := match e with PBlank => true | _ => false end.
  Definition word0 (e : pentry) : N :=
    match e with
    | PFree n => n
    | PUsed _ ((k, _) :: _) => k
    | _ => 0
    end.

  (* for (nextPage+1)*pageSize <= len(data) { if node(nextPage).pageID() == 0 break; nextPage++ } *)
  Fixpoint frontier (fuel : nat) (pg : N -> pentry) (dlen : N) (np : N) : N :=
    match fuel with
    | O => np
    | S f => if (np + 1) * ps <=? dlen
             then (if page_id_zero (pg np) then np else frontier f pg dlen (np + 1))
             else np
    end.

  (* Tree.Iterate from page pid: the reachable nodes, as a term.  None = the traversal leaves the tree (a child
     pointer 0 fails an assert; a page without page id indexes tailPages out of range) or fuel exhausted. *)
  Fixpoint rebuild_kids (rec : N -> option tree) (es : list (N * N)) : option (list (N * tree)) :=
    match es with
    | [] => Some []
    | e :: r =>
        if snd e =? 0 then None
        else match rec (snd e) with
             | None => None
             | Some t => match rebuild_kids rec r with None => None | Some r' => Some ((fst e, t) :: r') end
             end
    end.
  Fixpoint rebuild (fuel : nat) (pg : N -> pentry) (pid : N) : option tree :=
    match fuel with
    | O => None
    | S f =>
      match pg pid with
      | PUsed true es => Some (Leaf pid es)
      | PUsed false es =>
          match rebuild_kids (rebuild f pg) es with None => None | Some cs => Some (Node pid cs) end
      | _ => None
      end
    end.

  Definition memN (x : N) (l : list N) : bool := existsb (N.eqb x) l.

  (* follow word 0 from the head *)
  Fixpoint chain (fuel : nat) (pg : N -> pentry) (p : N) : list N :=
    match fuel with
    | O => []
    | S f => if p =? 0 then [] else p :: chain f pg (word0 (pg p))
    end.

  (* None = a Go panic (slice/index out of range, failed assert) *)
  Definition reinit (f : pfile) : option tstate :=
    let pg := pf_page f in
    let dlen := pf_size f - 8 in
    let np := frontier (S (N.to_nat (dlen / ps))) pg dlen 1 in
    let maxid := np - 1 in
    match rebuild (S (N.to_nat maxid)) pg 1 with
    | None => None
    | Some r =>
      let vis := pids r in
      if negb (forallb (fun p => (1 <=? p) && (p <=? maxid)) vis) then None    (* tailPages[i] out of range *)
      else
        let all := map (fun i => N.of_nat i) (seq 1 (N.to_nat maxid)) in
        let nontail := filter (fun p => negb (memN p vis)) all in
        let pointed := filter (fun n => negb (n =? 0)) (map (fun p => word0 (pg p)) nontail) in
        if negb (forallb (fun p => p <=? maxid) pointed) then None              (* tailPages[pageId-1] out of range *)
        else
          let heads := filter (fun p => negb (memN p pointed)) nontail in
          let head := match heads with h :: _ => h | [] => 0 end in
          Some (mkT r
                    (mkAlloc np (chain (length nontail) pg head)
                             (Z.of_nat (length (entries r))) (Z.of_nat (length nontail))
                             (pf_size f) (pf_size f))
                    (height r))
    end.

  (* Close followed by NewTreePersistent on the same path *)
  Definition tree_reopen (st : tstate) : option tstate :=
    let f := persist st in
    (* root := t.node(1); isInitialized := root.pageID() != 0 *)
    if page_id_zero (pf_page f 1) then tree_new_file M ps   (* not reachable: page 1 is the root *)
    else reinit f.
End Reopen.
