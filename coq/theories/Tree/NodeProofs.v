(* Node-level lemmas: node.search / set / get / compact / split on entry lists.  Layer (i) of the C10 proof. *)
From Ristretto Require Import Base.Word Base.ListX Simd.SearchGo Tree.Node.
From Coq Require Import ZifyN ZifyNat ZifyBool.
Open Scope N_scope.

(* ---------- association-list reading of an entry list: value of the first entry with key k, else 0 ---------- *)
Fixpoint alookup (es : list (N * N)) (k : N) : N :=
  match es with
  | [] => 0
  | e :: r => if fst e =? k then snd e else alookup r k
  end.

(* strictly increasing keys, all above lo *)
Fixpoint ksorted {V} (lo : N) (es : list (N * V)) : Prop :=
  match es with
  | [] => True
  | e :: r => lo < fst e /\ ksorted (fst e) r
  end.

Definition keys_lt {V} (k : N) (es : list (N * V)) : Prop := Forall (fun e => fst e < k) es.
Definition keys_gt {V} (k : N) (es : list (N * V)) : Prop := Forall (fun e => k < fst e) es.

Lemma nth_error_app_hd {A} (l1 : list A) x l2 : nth_error (l1 ++ x :: l2) (length l1) = Some x.
Proof. rewrite nth_error_app2 by lia. rewrite Nat.sub_diag. reflexivity. Qed.

Lemma upd_app_hd {A} (l1 : list A) x l2 y : upd (l1 ++ x :: l2) (length l1) y = l1 ++ y :: l2.
Proof. induction l1 as [|a l1 IH]; cbn; [reflexivity|]. f_equal. exact IH. Qed.

Section NodeLemmas.
  Context {V : Type}.
  Variable word : V -> N.
  Implicit Types es pre post : list (N * V).

  (* ---------- search ---------- *)
  Fixpoint find_ge (es : list (N * V)) (k : N) : nat :=
    match es with
    | [] => O
    | e :: r => if k <=? fst e then O else S (find_ge r k)
    end.

  Lemma first_ge_flat es k : first_ge (flat word es) k = N.of_nat (find_ge es k).
  Proof.
    induction es as [|e r IH]; [reflexivity|].
    cbn [flat flat_map app find_ge first_ge]. fold (flat word r).
    destruct (k <=? fst e); [reflexivity|]. rewrite IH. lia.
  Qed.

  Lemma node_search_find es k : node_search word es k = find_ge es k.
  Proof. unfold node_search. rewrite first_ge_flat. lia. Qed.

  Lemma find_ge_app pre post k : keys_lt k pre ->
    find_ge (pre ++ post) k = (length pre + find_ge post k)%nat.
  Proof.
    induction 1 as [|e r He Hr IH]; [reflexivity|].
    cbn [app find_ge length]. destruct (N.leb_spec k (fst e)); [lia|]. rewrite IH. reflexivity.
  Qed.

  (* the decomposition every node operation is read through *)
  Lemma search_decomp es k :
    exists pre post, es = pre ++ post /\ node_search word es k = length pre /\ keys_lt k pre /\
                     match post with [] => True | e :: _ => k <= fst e end.
  Proof.
    rewrite node_search_find.
    induction es as [|e r IH].
    - exists [], []. repeat split; constructor.
    - cbn [find_ge]. destruct (N.leb_spec k (fst e)) as [Hle|Hgt].
      + exists [], (e :: r). repeat split; [constructor|exact Hle].
      + destruct IH as (pre & post & -> & Hs & Hlt & Hp).
        exists (e :: pre), post. repeat split; [cbn [length]; congruence|constructor; assumption|exact Hp].
  Qed.

  Lemma search_at pre e post k : keys_lt k pre -> k <= fst e ->
    node_search word (pre ++ e :: post) k = length pre.
  Proof.
    intros Hp He. rewrite node_search_find, find_ge_app by exact Hp. cbn [find_ge].
    destruct (N.leb_spec k (fst e)); lia.
  Qed.

  Lemma search_end pre k : keys_lt k pre -> node_search word pre k = length pre.
  Proof.
    intros Hp. rewrite node_search_find. rewrite <- (app_nil_r pre) at 1. rewrite find_ge_app by exact Hp.
    cbn [find_ge]. lia.
  Qed.

  Lemma key_at_app_hd pre e post : key_at (pre ++ e :: post) (length pre) = fst e.
  Proof.
    unfold key_at. rewrite nth_error_app2 by lia. rewrite Nat.sub_diag. reflexivity.
  Qed.

  Lemma key_at_end pre : key_at pre (length pre) = 0.
  Proof.
    unfold key_at. destruct (nth_error pre (length pre)) eqn:E; [|reflexivity].
    assert (nth_error pre (length pre) <> None) as H by congruence. apply nth_error_Some in H. lia.
  Qed.

  Lemma insert_at_app pre post e : insert_at (pre ++ post) (length pre) e = pre ++ e :: post.
  Proof.
    unfold insert_at. rewrite firstn_app, skipn_app, Nat.sub_diag, firstn_all, skipn_all.
    cbn. rewrite app_nil_r. reflexivity.
  Qed.

  (* ---------- node.set in decomposed form ---------- *)
  Lemma node_set_insert pre post k v : k <> 0 -> keys_lt k pre ->
    match post with [] => True | e :: _ => k < fst e end ->
    node_set word (pre ++ post) k v = (pre ++ (k, v) :: post, 1%Z).
  Proof.
    intros Hk Hp Hq. unfold node_set.
    destruct post as [|e post].
    - rewrite app_nil_r. rewrite search_end by exact Hp. rewrite key_at_end.
      destruct (N.eqb_spec 0 k); [congruence|].
      rewrite <- (app_nil_r pre) at 1. rewrite insert_at_app. reflexivity.
    - rewrite search_at by (try exact Hp; lia). rewrite key_at_app_hd.
      destruct (N.eqb_spec (fst e) k); [lia|]. rewrite insert_at_app. reflexivity.
  Qed.

  Lemma node_set_replace pre post k v0 v : keys_lt k pre ->
    node_set word (pre ++ (k, v0) :: post) k v = (pre ++ (k, v) :: post, 0%Z).
  Proof.
    intros Hp. unfold node_set. rewrite search_at by (try exact Hp; cbn; lia). rewrite key_at_app_hd. cbn [fst].
    rewrite N.eqb_refl. rewrite upd_app_hd. reflexivity.
  Qed.

End NodeLemmas.

Section SortedLemmas.
  Context {V : Type}.
  Implicit Types es pre post : list (N * V).

  (* ---------- sortedness ---------- *)
  Lemma ksorted_weaken lo lo' es : lo' <= lo -> ksorted lo es -> ksorted lo' es.
  Proof. destruct es as [|e r]; cbn; [auto|]. intros H [H1 H2]. split; [lia|exact H2]. Qed.

  Lemma ksorted_keys_gt lo es : ksorted lo es -> keys_gt lo es.
  Proof.
    revert lo. induction es as [|e r IH]; intros lo H; [constructor|].
    destruct H as [H1 H2]. constructor; [exact H1|].
    apply IH in H2. eapply Forall_impl; [|exact H2]. cbn. intros; lia.
  Qed.

  (* key of the last entry, lo for the empty list *)
  Fixpoint last_key (lo : N) es : N := match es with [] => lo | e :: r => last_key (fst e) r end.

  Lemma ksorted_app lo pre post : ksorted lo (pre ++ post) <-> ksorted lo pre /\ ksorted (last_key lo pre) post.
  Proof.
    revert lo. induction pre as [|e r IH]; intros lo; cbn [app ksorted last_key]; [tauto|].
    rewrite IH. tauto.
  Qed.

  Lemma last_key_app lo pre post : last_key lo (pre ++ post) = last_key (last_key lo pre) post.
  Proof. revert lo. induction pre as [|e r IH]; intros lo; cbn [app last_key]; auto. Qed.

  Lemma max_key_last lo es : es <> [] -> max_key es = last_key lo es.
  Proof.
    intros Hne. unfold max_key, key_at.
    revert lo. induction es as [|e r IH]; intros lo; [congruence|].
    destruct r as [|e' r']; [reflexivity|].
    change (last_key lo (e :: e' :: r')) with (last_key (fst e) (e' :: r')).
    rewrite <- (IH ltac:(congruence) (fst e)).
    cbn [length]. replace (S (S (length r')) - 1)%nat with (S (S (length r') - 1)) by lia. reflexivity.
  Qed.

  Lemma last_key_ge lo es : ksorted lo es -> lo <= last_key lo es.
  Proof.
    revert lo. induction es as [|e r IH]; intros lo H; cbn [last_key]; [lia|].
    destruct H as [H1 H2]. apply IH in H2. lia.
  Qed.

  Lemma ksorted_keys_le_last lo es : ksorted lo es -> Forall (fun e => fst e <= last_key lo es) es.
  Proof.
    revert lo. induction es as [|e r IH]; intros lo H; [constructor|].
    destruct H as [H1 H2]. cbn [last_key]. constructor; [apply last_key_ge; exact H2|apply IH; exact H2].
  Qed.

End SortedLemmas.

(* ---------- leaves: the association-list reading ---------- *)
Lemma alookup_notin es k : Forall (fun e => fst e <> k) es -> alookup es k = 0.
Proof.
  induction 1 as [|e r He Hr IH]; [reflexivity|]. cbn [alookup].
  destruct (N.eqb_spec (fst e) k); [congruence|exact IH].
Qed.

Lemma alookup_app_l l1 l2 k : Forall (fun e => fst e <> k) l1 -> alookup (l1 ++ l2) k = alookup l2 k.
Proof.
  induction 1 as [|e r He Hr IH]; [reflexivity|]. cbn [app alookup].
  destruct (N.eqb_spec (fst e) k); [congruence|exact IH].
Qed.

Lemma alookup_app_r l1 l2 k : Forall (fun e => fst e <> k) l2 -> alookup (l1 ++ l2) k = alookup l1 k.
Proof.
  intros H. induction l1 as [|e r IH]; cbn [app alookup]; [apply alookup_notin; exact H|].
  destruct (fst e =? k); [reflexivity|exact IH].
Qed.

Lemma keys_lt_ne {V} k (es : list (N * V)) k' : keys_lt k es -> k <= k' -> Forall (fun e => fst e <> k') es.
Proof. intros H Hk. eapply Forall_impl; [|exact H]. cbn. intros; lia. Qed.
Lemma keys_gt_ne {V} k (es : list (N * V)) k' : keys_gt k es -> k' <= k -> Forall (fun e => fst e <> k') es.
Proof. intros H Hk. eapply Forall_impl; [|exact H]. cbn. intros; lia. Qed.

Lemma ksorted_tail_gt {V} lo (e : N * V) r : ksorted lo (e :: r) -> keys_gt (fst e) r.
Proof. intros [_ H]. apply ksorted_keys_gt. exact H. Qed.

(* node.get reads the association list *)
Lemma node_get_spec lo es k : ksorted lo es -> node_get es k = alookup es k.
Proof.
  intros Hs. unfold node_get.
  destruct (search_decomp wid es k) as (pre & post & -> & Hi & Hlt & Hp).
  rewrite Hi. rewrite alookup_app_l by (eapply keys_lt_ne; [exact Hlt|lia]).
  destruct post as [|[ki v] post].
  - rewrite app_nil_r, Nat.eqb_refl. reflexivity.
  - rewrite app_length. cbn [length].
    destruct (Nat.eqb_spec (length pre) (length pre + S (length post))); [lia|].
    rewrite nth_error_app_hd. cbn [alookup fst snd] in *.
    destruct (N.eqb_spec ki k); [reflexivity|].
    symmetry. apply alookup_notin.
    apply ksorted_app in Hs. destruct Hs as [_ Hs].
    apply ksorted_tail_gt in Hs. cbn [fst] in Hs. eapply keys_gt_ne; [exact Hs|lia].
Qed.

(* node.set on a sorted leaf *)
Lemma ksorted_insert {V} lo (pre post : list (N * V)) k v : lo < k -> keys_lt k pre ->
  match post with [] => True | e :: _ => k < fst e end ->
  ksorted lo (pre ++ post) -> ksorted lo (pre ++ (k, v) :: post).
Proof.
  intros Hlo Hp Hq Hs. apply ksorted_app in Hs. destruct Hs as [Hs1 Hs2].
  apply ksorted_app. split; [exact Hs1|]. cbn [ksorted fst].
  split.
  - clear - Hlo Hp. revert lo Hlo. induction Hp as [|e r He Hr IH]; intros lo Hlo; cbn [last_key]; [exact Hlo|].
    apply IH. exact He.
  - destruct post as [|e post]; [exact I|]. destruct Hs2 as [_ Hs2]. split; [exact Hq|exact Hs2].
Qed.

Lemma ksorted_replace {V} lo (pre post : list (N * V)) k v0 v :
  ksorted lo (pre ++ (k, v0) :: post) -> ksorted lo (pre ++ (k, v) :: post).
Proof. rewrite !ksorted_app. cbn [ksorted fst]. tauto. Qed.

Lemma last_key_insert {V} lo (pre post : list (N * V)) k v : post <> [] ->
  last_key lo (pre ++ (k, v) :: post) = last_key lo (pre ++ post).
Proof.
  intros Hne. rewrite !last_key_app. cbn [last_key fst]. destruct post as [|e post]; [congruence|reflexivity].
Qed.

Definition has_key {V} (es : list (N * V)) (k : N) : bool := existsb (fun e => fst e =? k) es.

Lemma alookup_app l1 l2 k : alookup (l1 ++ l2) k = if has_key l1 k then alookup l1 k else alookup l2 k.
Proof.
  induction l1 as [|e r IH]; [reflexivity|]. cbn [app alookup has_key existsb].
  destruct (fst e =? k); [reflexivity|exact IH].
Qed.

Lemma has_key_false {V} (es : list (N * V)) k : Forall (fun e => fst e <> k) es -> has_key es k = false.
Proof.
  induction 1 as [|e r He Hr IH]; [reflexivity|]. cbn [has_key existsb].
  destruct (N.eqb_spec (fst e) k); [congruence|exact IH].
Qed.

Lemma last_key_lt {V} lo (es : list (N * V)) k : lo < k -> keys_lt k es -> last_key lo es < k.
Proof.
  intros Hlo H. revert lo Hlo. induction H as [|e r He Hr IH]; intros lo Hlo; cbn [last_key]; [exact Hlo|].
  apply IH. exact He.
Qed.

Lemma node_set_leaf_spec lo es k v : ksorted lo es -> lo < k ->
  let es' := fst (node_set wid es k v) in
  ksorted lo es' /\ es' <> [] /\
  (forall k', alookup es' k' = if k' =? k then v else alookup es k') /\
  Z.of_nat (length es') = (Z.of_nat (length es) + snd (node_set wid es k v))%Z /\
  (k <= last_key lo es -> last_key lo es' = last_key lo es) /\
  (length es <= length es' <= S (length es))%nat.
Proof.
  intros Hs Hlo.
  destruct (search_decomp wid es k) as (pre & post & -> & Hi & Hlt & Hp).
  assert (Hne : k <> 0) by lia.
  assert (Hhk : has_key pre k = false) by (apply has_key_false; eapply keys_lt_ne; [exact Hlt|lia]).
  assert (Hcase : (exists v0 post', post = (k, v0) :: post') \/
                  match post with [] => True | e :: _ => k < fst e end).
  { destruct post as [|[ki v0] post']; [right; exact I|]. cbn [fst] in *.
    destruct (N.eq_dec ki k) as [->|Hneq]; [left; eauto|right; lia]. }
  destruct Hcase as [(v0 & post' & ->)|Hq].
  - rewrite (node_set_replace wid pre post' k v0 v Hlt). cbn [fst snd].
    split; [eapply ksorted_replace; exact Hs|]. split; [destruct pre; discriminate|].
    split; [|split; [rewrite !app_length; cbn [length]; lia|split]].
    + intros k'. rewrite !alookup_app. cbn [alookup fst snd].
      destruct (N.eqb_spec k' k) as [->|Hne'].
      * rewrite Hhk, N.eqb_refl. reflexivity.
      * destruct (N.eqb_spec k k'); [congruence|reflexivity].
    + intros _. rewrite !last_key_app. reflexivity.
    + rewrite !app_length. cbn [length]. lia.
  - rewrite (node_set_insert wid pre post k v Hne Hlt Hq). cbn [fst snd].
    split; [apply ksorted_insert; auto|]. split; [destruct pre; discriminate|].
    split; [|split; [rewrite !app_length; cbn [length]; lia|split]].
    + intros k'. rewrite !alookup_app. cbn [alookup fst snd].
      destruct (N.eqb_spec k' k) as [->|Hne'].
      * rewrite Hhk, N.eqb_refl. reflexivity.
      * destruct (N.eqb_spec k k'); [congruence|reflexivity].
    + intros Hle. destruct post as [|e post'].
      * exfalso. rewrite app_nil_r in Hle. pose proof (last_key_lt lo pre k Hlo Hlt). lia.
      * apply last_key_insert. discriminate.
    + rewrite !app_length. cbn [length]. lia.
Qed.

(* ---------- node.compact on a sorted leaf ---------- *)
Definition keep (ts : N) (e : N * N) : bool := negb (snd e <? ts).

Lemma compact_init ts mk init : keys_lt mk init ->
  flat_map (compact_entry ts mk) init = filter (keep ts) init.
Proof.
  induction 1 as [|e r He Hr IH]; [reflexivity|]. cbn [flat_map filter]. rewrite IH.
  unfold compact_entry, keep. destruct (snd e <? ts); cbn [negb]; [|reflexivity].
  destruct (N.ltb_spec (fst e) mk); [reflexivity|lia].
Qed.

Lemma ksorted_filter {V} lo (p : N * V -> bool) es : ksorted lo es -> ksorted lo (filter p es).
Proof.
  revert lo. induction es as [|e r IH]; intros lo H; [exact I|]. destruct H as [H1 H2]. cbn [filter].
  destruct (p e).
  - split; [exact H1|apply IH; exact H2].
  - apply IH. eapply ksorted_weaken; [|exact H2]. lia.
Qed.

Lemma alookup_filter lo ts es k : ksorted lo es ->
  alookup (filter (keep ts) es) k = if alookup es k <? ts then 0 else alookup es k.
Proof.
  revert lo. induction es as [|e r IH]; intros lo H.
  - cbn. destruct (0 <? ts); reflexivity.
  - pose proof (ksorted_tail_gt _ _ _ H) as Hgt. destruct H as [H1 H2]. cbn [filter alookup].
    destruct (N.eqb_spec (fst e) k) as [Heq|Hne].
    + subst k. assert (Hr : alookup r (fst e) = 0) by (apply alookup_notin; eapply keys_gt_ne; [exact Hgt|lia]).
      unfold keep at 1. destruct (N.ltb_spec (snd e) ts); cbn [negb].
      * rewrite (IH _ H2), Hr. destruct (0 <? ts); reflexivity.
      * cbn [alookup]. rewrite N.eqb_refl. reflexivity.
    + destruct (keep ts e); [cbn [alookup]; destruct (N.eqb_spec (fst e) k); [congruence|]|]; apply (IH _ H2).
Qed.

Lemma sorted_last_decomp lo (es : list (N * N)) : ksorted lo es -> es <> [] ->
  exists init vm, es = init ++ [(max_key es, vm)] /\ ksorted lo init /\ keys_lt (max_key es) init /\ lo < max_key es.
Proof.
  intros Hs Hne. destruct (exists_last Hne) as (init & [mk vm] & ->).
  assert (Hmk : max_key (init ++ [(mk, vm)]) = mk).
  { rewrite (max_key_last 0) by (destruct init; discriminate). rewrite last_key_app. reflexivity. }
  rewrite Hmk. exists init, vm. split; [reflexivity|].
  apply ksorted_app in Hs. destruct Hs as [Hs1 Hs2]. cbn [ksorted fst] in Hs2. destruct Hs2 as [Hs2 _].
  split; [exact Hs1|]. split.
  - pose proof (ksorted_keys_le_last _ _ Hs1) as H. eapply Forall_impl; [|exact H]. cbn. intros; lia.
  - pose proof (last_key_ge _ _ Hs1). lia.
Qed.

Lemma max_key_snoc {V} (init : list (N * V)) x : max_key (init ++ [x]) = fst x.
Proof. rewrite (max_key_last 0) by (destruct init; discriminate). rewrite last_key_app. reflexivity. Qed.

Lemma keys_lt_filter {V} k (p : N * V -> bool) es : keys_lt k es -> keys_lt k (filter p es).
Proof.
  unfold keys_lt. rewrite !Forall_forall. intros H x Hx. apply filter_In in Hx. apply H, Hx.
Qed.

Lemma filter_len_le {A} (p : A -> bool) l : (length (filter p l) <= length l)%nat.
Proof. induction l as [|a l IH]; cbn; [lia|]. destruct (p a); cbn; lia. Qed.

Lemma node_compact_spec lo es ts : ksorted lo es -> es <> [] ->
  let es' := fst (node_compact es ts) in
  ksorted lo es' /\ es' <> [] /\ max_key es' = max_key es /\
  (forall k, alookup es' k = if alookup es k <? ts then 0 else alookup es k) /\
  (snd (node_compact es ts) = O -> es' = [(max_key es, 0)]) /\
  (length es' <= length es)%nat.
Proof.
  intros Hs Hne.
  destruct (sorted_last_decomp lo es Hs Hne) as (init & vm & He & Hsi & Hlt & Hlo).
  set (mk := max_key es) in *.
  set (vm' := if vm <? ts then 0 else vm).
  assert (Hfm : flat_map (compact_entry ts mk) es = filter (keep ts) init ++ [(mk, vm')]).
  { rewrite He at 1. rewrite flat_map_app, (compact_init ts mk init Hlt).
    f_equal. cbn [flat_map]. unfold compact_entry. cbn [fst snd]. unfold vm'.
    destruct (vm <? ts); [|reflexivity]. destruct (N.ltb_spec mk mk); [lia|reflexivity]. }
  assert (Hes' : fst (node_compact es ts) = filter (keep ts) init ++ [(mk, vm')]).
  { unfold node_compact. cbn [fst]. fold mk. exact Hfm. }
  cbv zeta. rewrite Hes'.
  split; [|split; [|split; [|split; [|split]]]].
  - apply (ksorted_insert lo (filter (keep ts) init) [] mk vm' Hlo (keys_lt_filter _ _ _ Hlt) I).
    rewrite app_nil_r. apply ksorted_filter. exact Hsi.
  - destruct (filter (keep ts) init); discriminate.
  - apply max_key_snoc.
  - intros k. rewrite He.
    destruct (N.eq_dec k mk) as [->|Hk].
    + rewrite !alookup_app_l.
      * cbn [alookup fst snd]. rewrite N.eqb_refl. unfold vm'.
        destruct (N.ltb_spec vm ts) as [H|H]; [reflexivity|]. destruct (N.ltb_spec vm ts); [lia|reflexivity].
      * eapply keys_lt_ne; [exact Hlt|lia].
      * eapply keys_lt_ne; [apply keys_lt_filter; exact Hlt|lia].
    + rewrite !(alookup_app_r _ [_]) by (repeat constructor; cbn; congruence).
      apply (alookup_filter lo). exact Hsi.
  - unfold node_compact. cbn [snd]. fold mk. rewrite !Hfm.
    destruct (filter (keep ts) init) as [|e1 r1] eqn:Ef.
    + cbn [app length]. rewrite N.eqb_refl. cbn [andb].
      destruct (N.ltb_spec vm' ts) as [Hv|Hv]; [|cbn; intros Hx; discriminate Hx]. intros _.
      unfold vm' in *. destruct (N.ltb_spec vm ts); [reflexivity|lia].
    + destruct e1 as [k1 v1]. destruct r1; cbn; intros Hx; discriminate Hx.
  - rewrite He, !app_length. cbn [length]. pose proof (filter_len_le (keep ts) init). lia.
Qed.

(* ---------- split ---------- *)
Lemma ksorted_split {V} lo (es : list (N * V)) h :
  ksorted lo es -> ksorted lo (firstn h es) /\ ksorted (last_key lo (firstn h es)) (skipn h es).
Proof. intros H. rewrite <- (firstn_skipn h es) in H. apply ksorted_app in H. exact H. Qed.

Lemma last_key_split {V} lo (es : list (N * V)) h :
  last_key (last_key lo (firstn h es)) (skipn h es) = last_key lo es.
Proof. rewrite <- last_key_app, firstn_skipn. reflexivity. Qed.

Lemma last_key_lt_sorted {V} lo (pre : list (N * V)) x post :
  ksorted lo (pre ++ x :: post) -> last_key lo pre < fst x.
Proof. intros H. apply ksorted_app in H. destruct H as [_ [H _]]. exact H. Qed.

(* strict: the last key of a proper prefix is below the last key of the whole *)
Lemma last_key_firstn_lt {V} lo (es : list (N * V)) h : ksorted lo es -> (h < length es)%nat ->
  last_key lo (firstn h es) < last_key lo es.
Proof.
  intros Hs Hh. rewrite <- (last_key_split lo es h).
  destruct (ksorted_split lo es h Hs) as [_ H2].
  destruct (skipn h es) as [|x r] eqn:E.
  - apply (f_equal (@length _)) in E. rewrite skipn_length in E. cbn in E. lia.
  - cbn [last_key]. destruct H2 as [H2 H3]. pose proof (last_key_ge _ _ H3). lia.
Qed.

(* ---------- IterateKV on a leaf ---------- *)
Definition upd_val (f : N -> N -> N) (k v : N) : N :=
  if v =? 0 then 0 else if f k v =? 0 then v else f k v.

Lemma iter_entry_fst f e : fst (iter_entry f e) = fst e.
Proof. unfold iter_entry. destruct (snd e =? 0); [reflexivity|]. destruct (f (fst e) (snd e) =? 0); reflexivity. Qed.

Lemma ksorted_map_keys {V W} lo (g : N * V -> N * W) es : (forall e, fst (g e) = fst e) ->
  ksorted lo es -> ksorted lo (map g es).
Proof.
  intros Hg. revert lo. induction es as [|e r IH]; intros lo H; [exact I|].
  destruct H as [H1 H2]. cbn [map ksorted]. rewrite Hg. split; [exact H1|apply IH; exact H2].
Qed.

Lemma last_key_map_keys {V W} lo (g : N * V -> N * W) es : (forall e, fst (g e) = fst e) ->
  last_key lo (map g es) = last_key lo es.
Proof. intros Hg. revert lo. induction es as [|e r IH]; intros lo; cbn [map last_key]; [reflexivity|]. rewrite Hg. apply IH. Qed.

Lemma alookup_iter f es k : alookup (map (iter_entry f) es) k = upd_val f k (alookup es k).
Proof.
  induction es as [|e r IH]; [reflexivity|]. cbn [map alookup]. rewrite iter_entry_fst.
  destruct (N.eqb_spec (fst e) k) as [<-|Hne]; [|exact IH].
  unfold iter_entry, upd_val. destruct (snd e =? 0) eqn:E0; [apply N.eqb_eq in E0; exact E0|].
  destruct (f (fst e) (snd e) =? 0); reflexivity.
Qed.
