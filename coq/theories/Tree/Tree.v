(* Model of z/btree.go: the B+ tree as a term whose nodes carry their page id, plus the page allocator
   (nextPage, free list, stats, and the backing buffer's size arithmetic).  Definitions only.

   A tree node is the page it lives in: [Leaf pid entries] / [Node pid entries] where the value slot of an
   internal entry (the child's page id in the code) is the child itself.  The algorithms are the code's, function by
   function: Tree.set / Tree.Set (with split and the root split), Tree.get, Tree.compact / DeleteBelow,
   Tree.iterate / IterateKV, newNode, Reset, Stats.  Recursion is on explicit fuel; the fuel used by the top-level
   operations is the ghost field [depth] (incremented by the root split), an upper bound of the tree's height. *)
From Ristretto Require Import Base.Word Simd.SearchGo Tree.Node.
Open Scope N_scope.

Inductive tree :=
| Leaf (pid : N) (es : list (N * N))
| Node (pid : N) (cs : list (N * tree)).

Definition pid_of (t : tree) : N := match t with Leaf p _ => p | Node p _ => p end.
Definition num_keys (t : tree) : nat := match t with Leaf _ es => length es | Node _ cs => length cs end.
Definition tmax_key (t : tree) : N := match t with Leaf _ es => max_key es | Node _ cs => max_key cs end.
Definition set_pid (t : tree) (p : N) : tree := match t with Leaf _ es => Leaf p es | Node _ cs => Node p cs end.

Fixpoint height (t : tree) : nat :=
  match t with
  | Leaf _ _ => O
  | Node _ cs => S (fold_right (fun e m => Nat.max (height (snd e)) m) O cs)
  end.

(* page ids of the nodes (pre-order) and the leaf entries (in key order) *)
Fixpoint pids (t : tree) : list N :=
  match t with
  | Leaf p _ => [p]
  | Node p cs => p :: flat_map (fun e => pids (snd e)) cs
  end.
Fixpoint entries (t : tree) : list (N * N) :=
  match t with
  | Leaf _ es => es
  | Node _ cs => flat_map (fun e => entries (snd e)) cs
  end.

(* ---------- allocator / stats / buffer ---------- *)
Definition absolute_max : N := 18446744073709551614.   (* math.MaxUint64 - 1 *)
Definition min_size : N := 1048576.                      (* 1 << 20 *)
Definition one_gb : N := 1073741824.

Record alloc := mkAlloc {
  nextPage : N;
  freeList : list N;      (* the chain freePage -> word 0 -> ... ; [] means freePage = 0 *)
  leafKeys : Z;           (* stats.NumLeafKeys *)
  pagesFree : Z;          (* stats.NumPagesFree *)
  curSz : N;              (* buffer.curSz = size of the mapping / file *)
  offset : N              (* buffer.offset; data = buf[8:offset] *)
}.

Definition data_len (a : alloc) : N := offset a - 8.
Definition free_page (a : alloc) : N := match freeList a with p :: _ => p | [] => 0 end.

(* Buffer.Grow(n): new curSz *)
Definition buf_grow (cur off n : N) : N :=
  if off + n <? cur then cur
  else let g0 := cur + n in
       let g1 := if one_gb <? g0 then one_gb else g0 in
       let g := if g1 <? n then n else g1 in
       cur + g.
(* Buffer.AllocateOffset(n) *)
Definition alloc_offset (a : alloc) (n : N) : alloc :=
  mkAlloc (nextPage a) (freeList a) (leafKeys a) (pagesFree a) (buf_grow (curSz a) (offset a) n) (offset a + n).

Definition add_leaf_keys (a : alloc) (d : Z) : alloc :=
  mkAlloc (nextPage a) (freeList a) (leafKeys a + d)%Z (pagesFree a) (curSz a) (offset a).

Section TreeOps.
  Variable M : nat.        (* maxKeys = pageSize/16 - 1 *)
  Variable ps : N.         (* pageSize *)

  (* Tree.newNode: pop the free list (NumPagesFree--), else bump nextPage and grow the buffer when the page does
     not fit into data.  (Zeroing the page and writing bits / page id is implicit in the term representation.) *)
  Definition new_node (a : alloc) : alloc * N :=
    match freeList a with
    | p :: rest => (mkAlloc (nextPage a) rest (leafKeys a) (pagesFree a - 1)%Z (curSz a) (offset a), p)
    | [] =>
        let p := nextPage a in
        let req := (p + 1) * ps in
        let a1 := mkAlloc (p + 1) [] (leafKeys a) (pagesFree a) (curSz a) (offset a) in
        ((if data_len a <? req then alloc_offset a1 (req - data_len a) else a1), p)
    end.

  Definition is_full (t : tree) : bool := Nat.eqb (num_keys t) M.

  (* Tree.split(pid) given the page p handed out by newNode: the right half moves to page p *)
  Definition split_tree (t : tree) (p : N) : tree * tree :=
    let h := Nat.div2 M in
    match t with
    | Leaf pid es => (Leaf pid (firstn h es), Leaf p (skipn h es))
    | Node pid cs => (Node pid (firstn h cs), Node p (skipn h cs))
    end.

  (* Tree.set(pid, k, v).  None = a panic of the code ("search returned index >= maxKeys") or fuel exhausted. *)
  Fixpoint tset (fuel : nat) (a : alloc) (t : tree) (k v : N) : option (alloc * tree) :=
    match fuel with
    | O => None
    | S f =>
      match t with
      | Leaf pid es =>
          let '(es', added) := node_set wid es k v in
          Some (add_leaf_keys a added, Leaf pid es')
      | Node pid cs =>
          let idx := node_search pid_of cs k in
          if Nat.leb M idx then None
          else
            (* if n.key(idx) == 0 { write k at idx; numKeys++ } ; child == nil => newNode(bitLeaf) *)
            let '(a1, cs1) :=
              if key_at cs idx =? 0
              then let '(a', p) := new_node a in (a', insert_at cs idx (k, Leaf p []))
              else (a, cs) in
            match nth_error cs1 idx with
            | None => None
            | Some (ck, child) =>
              match tset f a1 child k v with
              | None => None
              | Some (a2, child') =>
                if is_full child' then
                  let '(a3, p) := new_node a2 in
                  let '(l, r) := split_tree child' p in
                  (* entry idx still points at child's page, which now holds the left half *)
                  let cs2 := upd cs1 idx (ck, l) in
                  let cs3 := fst (node_set pid_of cs2 (tmax_key l) l) in
                  let cs4 := fst (node_set pid_of cs3 (tmax_key r) r) in
                  Some (a3, Node pid cs4)
                else Some (a2, Node pid (upd cs1 idx (ck, child')))
              end
            end
      end
    end.

  (* Tree.get *)
  Fixpoint tget (fuel : nat) (t : tree) (k : N) : N :=
    match fuel with
    | O => 0
    | S f =>
      match t with
      | Leaf _ es => node_get es k
      | Node _ cs =>
          let idx := node_search pid_of cs k in
          if Nat.eqb idx (length cs) || (key_at cs idx =? 0) then 0
          else match nth_error cs idx with
               | Some (_, c) => tget f c k
               | None => 0
               end
      end
    end.

  (* freeing a child in Tree.compact: NumLeafKeys -= child.numKeys(); word 0 := freePage; freePage = childID;
     NumPagesFree++ *)
  Definition free_child (a : alloc) (c : tree) : alloc :=
    mkAlloc (nextPage a) (pid_of c :: freeList a) (leafKeys a - Z.of_nat (num_keys c))%Z (pagesFree a + 1)%Z
            (curSz a) (offset a).

  (* the loop over the children in Tree.compact; a child is dropped when it reports 0 remaining keys and is not
     the last one (its entry gets value 0 and is removed by the following n.compact(1)) *)
  Fixpoint compact_children (rec : alloc -> tree -> option (alloc * tree * nat)) (a : alloc)
           (cs : list (N * tree)) : option (alloc * list (N * tree)) :=
    match cs with
    | [] => Some (a, [])
    | (ck, c) :: rest =>
      match rec a c with
      | None => None
      | Some (a1, c1, rem) =>
        let is_last := match rest with [] => true | _ => false end in
        if Nat.eqb rem 0 && negb is_last then
          compact_children rec (free_child a1 c1) rest
        else
          match compact_children rec a1 rest with
          | None => None
          | Some (a2, rest') => Some (a2, (ck, c1) :: rest')
          end
      end
    end.

  (* Tree.compact(n, ts) -> (…, return value) *)
  Fixpoint tcompact (fuel : nat) (ts : N) (a : alloc) (t : tree) : option (alloc * tree * nat) :=
    match fuel with
    | O => None
    | S f =>
      match t with
      | Leaf pid es =>
          let '(es', rem) := node_compact es ts in
          Some (add_leaf_keys a (Z.of_nat (length es')), Leaf pid es', rem)
      | Node pid cs =>
          match compact_children (tcompact f ts) a cs with
          | None => None
          | Some (a1, cs') => Some (a1, Node pid cs', length cs')
          end
      end
    end.

  (* Tree.IterateKV(f) -> (pairs passed to f in order, tree) *)
  Fixpoint titer (fuel : nat) (f : N -> N -> N) (t : tree) : list (N * N) * tree :=
    match fuel with
    | O => ([], t)
    | S fu =>
      match t with
      | Leaf pid es => (iter_visit es, Leaf pid (map (iter_entry f) es))
      | Node pid cs =>
          let rs := map (fun e => (fst e, titer fu f (snd e))) cs in
          (flat_map (fun r => fst (snd r)) rs, Node pid (map (fun r => (fst r, snd (snd r))) rs))
      end
    end.

  (* ---------- the Tree object ---------- *)
  Record tstate := mkT { root : tree; al : alloc; depth : nat (* ghost: height root <= depth *) }.

  (* initRootNode: newNode(0); Set(absoluteMax, 0) *)
  Definition init_root (a : alloc) : option tstate :=
    let '(a1, p) := new_node a in
    match tset 2 a1 (Node p []) absolute_max 0 with
    | Some (a2, r) => Some (mkT r a2 1)
    | None => None
    end.

  (* Reset on a buffer with the given curSz: buffer.Reset(); AllocateOffset(minSize); stats, nextPage, freePage
     cleared; initRootNode *)
  Definition tree_reset_buf (cur : N) : option tstate :=
    init_root (alloc_offset (mkAlloc 1 [] 0 0 cur 8) min_size).
  (* NewTree: NewBuffer(minSize) then Reset *)
  Definition tree_new_mem : option tstate := tree_reset_buf min_size.
  (* NewTreePersistent on a new (empty) file: the file is truncated to minSize, offset = len(buf) *)
  Definition tree_new_file : option tstate := init_root (mkAlloc 1 [] 0 0 min_size min_size).
  Definition tree_reset (st : tstate) : option tstate := tree_reset_buf (curSz (al st)).

  (* Tree.Set.  k = 0 and k = MaxUint64 panic (None). *)
  Definition tree_set (st : tstate) (k v : N) : option tstate :=
    if (k =? 0) || (k =? absolute_max + 1) then None
    else
      match tset (S (depth st)) (al st) (root st) k v with
      | None => None
      | Some (a1, r1) =>
        if is_full r1 then
          let '(a2, pr) := new_node a1 in
          let '(l0, r) := split_tree r1 pr in
          let '(a3, pl) := new_node a2 in
          let l := set_pid l0 pl in
          let cs1 := fst (node_set pid_of [] (tmax_key l) l) in
          let cs2 := fst (node_set pid_of cs1 (tmax_key r) r) in
          Some (mkT (Node (pid_of r1) cs2) a3 (S (depth st)))
        else Some (mkT r1 a1 (depth st))
      end.

  Definition tree_get (st : tstate) (k : N) : N := tget (S (depth st)) (root st) k.

  (* Tree.DeleteBelow *)
  Definition tree_delete_below (st : tstate) (ts : N) : option tstate :=
    let a := al st in
    let a0 := mkAlloc (nextPage a) (freeList a) 0 (pagesFree a) (curSz a) (offset a) in
    match tcompact (S (depth st)) ts a0 (root st) with
    | Some (a1, r1, _) => Some (mkT r1 a1 (depth st))
    | None => None
    end.

  Definition tree_iterate (st : tstate) (f : N -> N -> N) : list (N * N) * tstate :=
    let '(vis, r1) := titer (S (depth st)) f (root st) in (vis, mkT r1 (al st) (depth st)).

  (* harness-only white-box poke: the buffer is cut back to the pages in use and made exactly full (offset =
     8 + nextPage*pageSize, curSz = offset; a persistent file is truncated to that size; the pages beyond nextPage
     are blank), so that the next page taken by bumping nextPage re-allocates / re-maps the buffer *)
  Definition tree_tight (st : tstate) : tstate :=
    let a := al st in
    let off := 8 + nextPage a * ps in
    mkT (root st) (mkAlloc (nextPage a) (freeList a) (leafKeys a) (pagesFree a) off off) (depth st).

  (* same poke leaving room for exactly [slack] more pages (curSz = offset + slack*pageSize + 1: Grow re-allocates
     when offset + n >= curSz), so that the (slack+1)-th page taken from now on moves the buffer *)
  Definition tree_tight_n (slack : N) (st : tstate) : tstate :=
    let a := al st in
    let off := 8 + nextPage a * ps in
    let cur := if (slack =? 0)%N then off else off + slack * ps + 1 in
    mkT (root st) (mkAlloc (nextPage a) (freeList a) (leafKeys a) (pagesFree a) cur off) (depth st).

  (* Stats(): NumLeafKeys, NumPages, NumPagesFree; white box: nextPage, freePage, len(data) *)
  Definition stat_leaf_keys (st : tstate) : Z := leafKeys (al st).
  Definition stat_pages (st : tstate) : N := nextPage (al st) - 1.
  Definition stat_pages_free (st : tstate) : Z := pagesFree (al st).
  Definition stat_next_page (st : tstate) : N := nextPage (al st).
  Definition stat_free_page (st : tstate) : N := free_page (al st).
  Definition stat_allocated (st : tstate) : N := data_len (al st).
End TreeOps.
