(* Tree-level proofs for C10: well-formedness, Get/Set (with splits), DeleteBelow, IterateKV, Reset, histories. *)
From Ristretto Require Import Base.Word Base.ListX Simd.SearchGo Tree.Node Tree.NodeProofs Tree.Tree.
From Coq Require Import ZifyN ZifyNat ZifyBool Permutation.
Open Scope N_scope.

(* the abstract map of a tree: key -> value, 0 = absent (the code's own convention) *)
Definition abs (t : tree) (k : N) : N := alookup (entries t) k.

Definition ents (cs : list (N * tree)) : list (N * N) := flat_map (fun e => entries (snd e)) cs.
Definition hmax (cs : list (N * tree)) : nat := fold_right (fun e m => Nat.max (height (snd e)) m) O cs.
Definition in_range (lo hi : N) (es : list (N * N)) : Prop := Forall (fun e => lo < fst e <= hi) es.

Lemma entries_node pid cs : entries (Node pid cs) = ents cs.
Proof. reflexivity. Qed.
Lemma height_node pid cs : height (Node pid cs) = S (hmax cs).
Proof. reflexivity. Qed.
Lemma ents_app a b : ents (a ++ b) = ents a ++ ents b.
Proof. apply flat_map_app. Qed.
Lemma ents_cons k c r : ents ((k, c) :: r) = entries c ++ ents r.
Proof. reflexivity. Qed.
Lemma hmax_app a b : hmax (a ++ b) = Nat.max (hmax a) (hmax b).
Proof. induction a as [|e a IH]; cbn [app hmax fold_right]; [reflexivity|]. fold (hmax (a ++ b)) (hmax a). rewrite IH. lia. Qed.
Lemma hmax_cons k c r : hmax ((k, c) :: r) = Nat.max (height c) (hmax r).
Proof. reflexivity. Qed.


(* ---------- page accounting: occurrence counts ---------- *)
Fixpoint cnt (p : N) (l : list N) : nat :=
  match l with [] => O | x :: r => ((if N.eqb x p then 1 else 0) + cnt p r)%nat end.
Lemma cnt_app p a b : cnt p (a ++ b) = (cnt p a + cnt p b)%nat.
Proof. induction a as [|x a IH]; cbn [app cnt]; [reflexivity|]. rewrite IH. lia. Qed.

Definition pidsk (cs : list (N * tree)) : list N := flat_map (fun e => pids (snd e)) cs.
Lemma pids_node pid cs : pids (Node pid cs) = pid :: pidsk cs.
Proof. reflexivity. Qed.
Lemma pidsk_app a b : pidsk (a ++ b) = pidsk a ++ pidsk b.
Proof. apply flat_map_app. Qed.
Lemma pidsk_cons k c r : pidsk ((k, c) :: r) = pids c ++ pidsk r.
Proof. reflexivity. Qed.

(* every page id below nextPage is either live (in L) or on the free list, exactly once *)
Definition pool (a : alloc) (L : list N) : Prop :=
  1 <= nextPage a /\
  forall p, cnt p (L ++ freeList a) = if (1 <=? p) && (p <? nextPage a) then 1%nat else 0%nat.

(* the allocator/stat invariant, with the live pages L and the number n of leaf entries as parameters *)
Definition AInv (ps : N) (a : alloc) (L : list N) (n : nat) : Prop :=
  pool a L /\ leafKeys a = Z.of_nat n /\ pagesFree a = Z.of_nat (length (freeList a)) /\
  8 <= offset a /\ offset a <= curSz a /\ nextPage a * ps <= data_len a.

Lemma AInv_perm ps a L L' n n' : (forall p, cnt p L = cnt p L') -> n = n' -> AInv ps a L n -> AInv ps a L' n'.
Proof.
  intros HL -> (Hp & H). split; [|exact H]. destruct Hp as [H1 H2]. split; [exact H1|].
  intros p. rewrite cnt_app, <- HL, <- cnt_app. apply H2.
Qed.

Lemma buf_grow_ge cur off n : off <= cur -> off + n <= buf_grow cur off n.
Proof.
  intros H. unfold buf_grow. destruct (N.ltb_spec (off + n) cur); [lia|].
  destruct (one_gb <? cur + n); destruct (N.ltb_spec one_gb n); destruct (N.ltb_spec (cur + n) n); lia.
Qed.

Lemma new_node_AInv ps a L n : AInv ps a L n ->
  AInv ps (fst (new_node ps a)) (snd (new_node ps a) :: L) n.
Proof.
  intros ((H1 & Hc) & Hlk & Hpf & Ho1 & Ho2 & Hd). unfold new_node.
  destruct (freeList a) as [|q rest] eqn:Ef.
  - cbn [fst snd]. set (np := nextPage a) in *.
    assert (Hpool : forall a', nextPage a' = np + 1 -> freeList a' = [] -> pool a' (np :: L)).
    { intros a' Hn Hf. split; [lia|]. intros p. rewrite Hf, Hn. specialize (Hc p).
      rewrite cnt_app in *. cbn [cnt] in *.
      destruct (N.eqb_spec np p); destruct (N.leb_spec 1 p); destruct (N.ltb_spec p np);
        destruct (N.ltb_spec p (np + 1)); cbn [andb] in *; lia. }
    unfold data_len in *.
    destruct (N.ltb_spec (offset a - 8) ((np + 1) * ps)).
    + unfold alloc_offset. cbn [nextPage freeList leafKeys pagesFree curSz offset].
      split; [apply Hpool; reflexivity|]. cbn [nextPage freeList leafKeys pagesFree curSz offset].
      split; [exact Hlk|]. split; [rewrite Hpf; reflexivity|]. split; [lia|]. split; [|unfold data_len; cbn [offset]; lia].
      apply buf_grow_ge. exact Ho2.
    + split; [apply Hpool; reflexivity|]. cbn [nextPage freeList leafKeys pagesFree curSz offset].
      split; [exact Hlk|]. split; [rewrite Hpf; reflexivity|]. unfold data_len; cbn [offset]. lia.
  - cbn [fst snd]. split; [|cbn [nextPage freeList leafKeys pagesFree curSz offset length] in *; repeat split; auto; lia].
    split; [exact H1|]. intros p. cbn [nextPage freeList]. specialize (Hc p).
    rewrite cnt_app in *. cbn [cnt] in *. lia.
Qed.

Lemma add_leaf_keys_AInv ps a L n d n' : AInv ps a L n -> (Z.of_nat n + d)%Z = Z.of_nat n' ->
  AInv ps (add_leaf_keys a d) L n'.
Proof.
  intros (Hp & Hlk & H) Hd. unfold add_leaf_keys. split; [exact Hp|]. cbn [leafKeys]. split; [lia|exact H].
Qed.

Lemma free_child_AInv ps a c L n : AInv ps a (pid_of c :: L) (n + num_keys c) ->
  AInv ps (free_child a c) L n.
Proof.
  intros ((H1 & Hc) & Hlk & Hpf & H). unfold free_child. split; [split; [exact H1|]|].
  - intros p. cbn [nextPage freeList]. specialize (Hc p). cbn [app cnt] in Hc. rewrite cnt_app in *. cbn [cnt]. lia.
  - cbn [leafKeys pagesFree freeList length curSz offset nextPage]. split; [lia|]. split; [lia|exact H].
Qed.

Section WF.
  Variable M : nat.
  Hypothesis HM : (4 <= M)%nat.

  (* wf cap lo hi t: keys of t lie in (lo, hi], nodes are sorted, non-empty, the last key of every node is its
     bound, every node below the top one has at most M-1 entries and the top one at most cap *)
  Inductive wf : nat -> N -> N -> tree -> Prop :=
  | wf_leaf cap lo hi pid es :
      ksorted lo es -> es <> [] -> max_key es = hi -> (length es <= cap)%nat -> wf cap lo hi (Leaf pid es)
  | wf_node cap lo hi pid cs :
      wf_kids lo hi cs -> cs <> [] -> (length cs <= cap)%nat -> wf cap lo hi (Node pid cs)
  with wf_kids : N -> N -> list (N * tree) -> Prop :=
  | wfk_nil lo : wf_kids lo lo []
  | wfk_cons lo k c rest hi : wf (M - 1) lo k c -> wf_kids k hi rest -> wf_kids lo hi ((k, c) :: rest).

  Scheme wf_mind := Minimality for wf Sort Prop
    with wf_kids_mind := Minimality for wf_kids Sort Prop.
  Combined Scheme wf_mutind from wf_mind, wf_kids_mind.

  Lemma wf_bounds :
    (forall cap lo hi t, wf cap lo hi t -> lo < hi /\ in_range lo hi (entries t) /\ ksorted lo (entries t)
                                          /\ last_key lo (entries t) = hi) /\
    (forall lo hi cs, wf_kids lo hi cs -> lo <= hi /\ (cs <> [] -> lo < hi) /\ in_range lo hi (ents cs) /\
                                          ksorted lo cs /\ last_key lo cs = hi /\
                                          ksorted lo (ents cs) /\ last_key lo (ents cs) = hi).
  Proof.
    apply wf_mutind.
    - intros cap lo hi pid es Hs Hne Hmk Hlen. cbn [entries].
      rewrite (max_key_last lo) in Hmk by exact Hne.
      assert (lo < hi).
      { destruct es as [|e r]; [congruence|]. destruct Hs as [H1 H2]. cbn [last_key] in Hmk.
        pose proof (last_key_ge _ _ H2). lia. }
      split; [assumption|]. split; [|split; assumption].
      pose proof (ksorted_keys_gt _ _ Hs) as Hgt. pose proof (ksorted_keys_le_last _ _ Hs) as Hle.
      rewrite Hmk in Hle. unfold in_range, keys_gt in *. rewrite Forall_forall in *. intros e He. split; auto.
    - intros cap lo hi pid cs Hk (Hle & Hlt & Hr & Hs & Hl & Hse & Hle') Hne Hlen.
      rewrite entries_node. auto.
    - intros lo. cbn. repeat split; try lia; try constructor. congruence.
    - intros lo k c rest hi Hc (Hlt & Hr & Hsc & Hlc) Hk (Hle & Hlt' & Hr' & Hs' & Hl' & Hse' & Hle').
      rewrite ents_cons. split; [lia|]. split; [intros _; lia|]. split; [|split; [|split; [|split]]].
      + unfold in_range in *. apply Forall_app. split; (eapply Forall_impl; [|eassumption]); cbn; intros; lia.
      + cbn [ksorted fst]. split; assumption.
      + cbn [last_key fst]. assumption.
      + apply ksorted_app. split; [assumption|]. rewrite Hlc. assumption.
      + rewrite last_key_app, Hlc. assumption.
  Qed.

  Lemma wf_lt cap lo hi t : wf cap lo hi t -> lo < hi.
  Proof. intros H. apply (proj1 wf_bounds) in H. tauto. Qed.
  Lemma wf_range cap lo hi t : wf cap lo hi t -> in_range lo hi (entries t).
  Proof. intros H. apply (proj1 wf_bounds) in H. tauto. Qed.
  Lemma wf_sorted cap lo hi t : wf cap lo hi t -> ksorted lo (entries t).
  Proof. intros H. apply (proj1 wf_bounds) in H. tauto. Qed.
  Lemma wfk_range lo hi cs : wf_kids lo hi cs -> in_range lo hi (ents cs).
  Proof. intros H. apply (proj2 wf_bounds) in H. tauto. Qed.
  Lemma wfk_sorted lo hi cs : wf_kids lo hi cs -> ksorted lo cs.
  Proof. intros H. apply (proj2 wf_bounds) in H. tauto. Qed.
  Lemma wfk_last lo hi cs : wf_kids lo hi cs -> last_key lo cs = hi.
  Proof. intros H. apply (proj2 wf_bounds) in H. tauto. Qed.
  Lemma wfk_le lo hi cs : wf_kids lo hi cs -> lo <= hi.
  Proof. intros H. apply (proj2 wf_bounds) in H. tauto. Qed.

  Lemma wf_weaken cap cap' lo hi t : (cap <= cap')%nat -> wf cap lo hi t -> wf cap' lo hi t.
  Proof. intros Hc H. inversion H; subst; constructor; auto; lia. Qed.

  Lemma wf_shrink cap lo hi t : wf (S cap) lo hi t -> num_keys t <> S cap -> wf cap lo hi t.
  Proof. intros H Hn. inversion H; subst; cbn [num_keys] in Hn; constructor; auto; lia. Qed.

  Lemma wf_tmax cap lo hi t : wf cap lo hi t -> tmax_key t = hi.
  Proof.
    intros H. inversion H; subst; cbn [tmax_key]; [auto|].
    rewrite (max_key_last lo) by assumption. apply wfk_last. assumption.
  Qed.

  Lemma wf_num_keys cap lo hi t : wf cap lo hi t -> (1 <= num_keys t <= cap)%nat.
  Proof. intros H. inversion H; subst; cbn [num_keys]; (destruct es || destruct cs); cbn [length] in *; try congruence; lia. Qed.

  Lemma wfk_app lo hi pre post :
    wf_kids lo hi (pre ++ post) <-> exists mid, wf_kids lo mid pre /\ wf_kids mid hi post.
  Proof.
    revert lo. induction pre as [|[k c] r IH]; intros lo; cbn [app].
    - split.
      + intros H. exists lo. split; [constructor|exact H].
      + intros (mid & H1 & H2). inversion H1; subst. exact H2.
    - split.
      + intros H. inversion H; subst. apply IH in H6. destruct H6 as (mid & H1 & H2).
        exists mid. split; [constructor; assumption|assumption].
      + intros (mid & H1 & H2). inversion H1; subst. constructor; [assumption|]. apply IH. eauto.
  Qed.

  (* routing: the child node.search selects is the one whose key interval contains k *)
  Lemma wfk_route lo hi cs k : wf_kids lo hi cs -> lo < k <= hi ->
    exists pre ck c post lo',
      cs = pre ++ (ck, c) :: post /\ keys_lt k pre /\
      wf_kids lo lo' pre /\ wf (M - 1) lo' ck c /\ lo' < k <= ck /\ wf_kids ck hi post.
  Proof.
    intros Hk Hr.
    destruct (search_decomp pid_of cs k) as (pre & post & -> & _ & Hlt & Hp).
    apply wfk_app in Hk. destruct Hk as (lo' & Hpre & Hpost).
    assert (Hlo' : lo' < k).
    { rewrite <- (wfk_last _ _ _ Hpre). apply last_key_lt; [lia|exact Hlt]. }
    destruct post as [|[ck c] post].
    - inversion Hpost; subst. lia.
    - inversion Hpost; subst. cbn [fst] in Hp.
      exists pre, ck, c, post, lo'. repeat split; auto; lia.
  Qed.

  (* ---------- reading the abstract map through the routing ---------- *)
  Lemma in_range_ne_low lo hi es k : in_range lo hi es -> k <= lo -> Forall (fun e => fst e <> k) es.
  Proof. intros H Hk. eapply Forall_impl; [|exact H]. cbn. intros; lia. Qed.
  Lemma in_range_ne_high lo hi es k : in_range lo hi es -> hi < k -> Forall (fun e => fst e <> k) es.
  Proof. intros H Hk. eapply Forall_impl; [|exact H]. cbn. intros; lia. Qed.

  Lemma alookup_mid lo0 lo' ck hi A B C k :
    in_range lo0 lo' A -> in_range lo' ck B -> in_range ck hi C ->
    alookup (A ++ B ++ C) k = if (lo' <? k) && (k <=? ck) then alookup B k else alookup (A ++ C) k.
  Proof.
    intros HA HB HC.
    destruct (N.ltb_spec lo' k) as [H1|H1]; cbn [andb].
    - destruct (N.leb_spec k ck) as [H2|H2].
      + rewrite alookup_app_l by (eapply in_range_ne_high; [exact HA|lia]).
        apply alookup_app_r. eapply in_range_ne_low; [exact HC|lia].
      + rewrite !(alookup_app A). destruct (has_key A k); [reflexivity|].
        apply alookup_app_l. eapply in_range_ne_high; [exact HB|lia].
    - rewrite !(alookup_app A). destruct (has_key A k); [reflexivity|].
      apply alookup_app_l. eapply in_range_ne_low; [exact HB|lia].
  Qed.

  Lemma abs_node_route pid pre ck c post lo lo' hi k :
    wf_kids lo lo' pre -> wf (M - 1) lo' ck c -> wf_kids ck hi post ->
    abs (Node pid (pre ++ (ck, c) :: post)) k =
    if (lo' <? k) && (k <=? ck) then abs c k else alookup (ents pre ++ ents post) k.
  Proof.
    intros Hpre Hc Hpost. unfold abs. rewrite entries_node, ents_app, ents_cons.
    eapply alookup_mid; [eapply wfk_range; eassumption|eapply wf_range; eassumption|eapply wfk_range; eassumption].
  Qed.

  (* ---------- Get ---------- *)
  Lemma tget_spec f : forall t k cap lo hi, (height t < f)%nat -> wf cap lo hi t -> lo < k <= hi ->
    tget f t k = abs t k.
  Proof.
    induction f as [|f IH]; intros t k cap lo hi Hh Hwf Hk; [lia|].
    inversion Hwf as [cap0 lo0 hi0 pid es Hs Hne Hmk Hlen|cap0 lo0 hi0 pid cs Hkids Hne Hlen]; subst; cbn [tget].
    - unfold abs. cbn [entries]. eapply node_get_spec. exact Hs.
    - destruct (wfk_route _ _ _ k Hkids Hk) as (pre & ck & c & post & lo' & -> & Hlt & Hpre & Hc & Hkc & Hpost).
      rewrite (search_at pid_of pre (ck, c) post k Hlt) by (cbn; lia).
      rewrite key_at_app_hd, nth_error_app_hd. cbn [fst].
      rewrite app_length. cbn [length].
      destruct (Nat.eqb_spec (length pre) (length pre + S (length post))); [lia|].
      destruct (N.eqb_spec ck 0); [lia|]. cbn [orb].
      rewrite (abs_node_route pid pre ck c post lo lo' hi k Hpre Hc Hpost).
      destruct (N.ltb_spec lo' k); [|lia]. destruct (N.leb_spec k ck); [|lia]. cbn [andb].
      rewrite height_node, hmax_app, hmax_cons in Hh.
      eapply IH; [lia|exact Hc|lia].
  Qed.

  (* ---------- Set: one level of Tree.set in decomposed form ---------- *)
  Lemma tset_node_step ps f a pid pre ck c post k v :
    keys_lt k pre -> k <= ck -> ck <> 0 -> (length (pre ++ (ck, c) :: post) < M)%nat ->
    tset M ps (S f) a (Node pid (pre ++ (ck, c) :: post)) k v =
    match tset M ps f a c k v with
    | None => None
    | Some (a2, c') =>
        if is_full M c' then
          let '(a3, p) := new_node ps a2 in
          let '(l, r) := split_tree M c' p in
          let cs2 := upd (pre ++ (ck, c) :: post) (length pre) (ck, l) in
          let cs3 := fst (node_set pid_of cs2 (tmax_key l) l) in
          let cs4 := fst (node_set pid_of cs3 (tmax_key r) r) in
          Some (a3, Node pid cs4)
        else Some (a2, Node pid (pre ++ (ck, c') :: post))
    end.
  Proof.
    intros Hlt Hk Hck Hlen. cbn [tset].
    rewrite (search_at pid_of pre (ck, c) post k Hlt) by (cbn; lia).
    rewrite app_length in Hlen. cbn [length] in Hlen.
    destruct (Nat.leb_spec M (length pre)); [lia|].
    rewrite key_at_app_hd. cbn [fst]. destruct (N.eqb_spec ck 0); [congruence|].
    rewrite nth_error_app_hd.
    destruct (tset M ps f a c k v) as [[a2 c']|]; [|reflexivity].
    destruct (is_full M c'); [reflexivity|]. rewrite upd_app_hd. reflexivity.
  Qed.

  (* the two node.set calls after a child split *)
  Lemma split_sets pre ck (l r : tree) post x :
    keys_lt (tmax_key l) pre -> tmax_key l < ck -> tmax_key l <> 0 -> tmax_key r = ck ->
    fst (node_set pid_of (fst (node_set pid_of (upd (pre ++ (ck, x) :: post) (length pre) (ck, l)) (tmax_key l) l))
                  (tmax_key r) r) = pre ++ (tmax_key l, l) :: (ck, r) :: post.
  Proof.
    intros Hlt Hlk Hne Hr. rewrite upd_app_hd.
    rewrite (node_set_insert pid_of pre ((ck, l) :: post) (tmax_key l) l Hne Hlt) by (cbn; exact Hlk).
    cbn [fst]. rewrite Hr.
    change (pre ++ (tmax_key l, l) :: (ck, l) :: post) with (pre ++ [(tmax_key l, l)] ++ (ck, l) :: post).
    rewrite app_assoc.
    rewrite (node_set_replace pid_of (pre ++ [(tmax_key l, l)]) post ck l r).
    - cbn [fst]. rewrite <- app_assoc. reflexivity.
    - unfold keys_lt in *. apply Forall_app. split.
      + eapply Forall_impl; [|exact Hlt]. cbn. intros; lia.
      + repeat constructor. cbn. exact Hlk.
  Qed.

  (* ---------- split of a full node ---------- *)
  Lemma firstn_ne {A} (l : list A) h : (1 <= h)%nat -> l <> [] -> firstn h l <> [].
  Proof. destruct h; [lia|]. destruct l; [congruence|]. discriminate. Qed.
  Lemma skipn_ne {A} (l : list A) h : (h < length l)%nat -> skipn h l <> [].
  Proof. intros H E. apply (f_equal (@length _)) in E. rewrite skipn_length in E. cbn in E. lia. Qed.

  Lemma div2_bounds : (1 <= Nat.div2 M)%nat /\ (Nat.div2 M < M)%nat /\ (Nat.div2 M <= M - 1)%nat /\ (M - Nat.div2 M <= M - 1)%nat.
  Proof. pose proof (Nat.div2_div M). pose proof (Nat.div_mod M 2). pose proof (Nat.mod_upper_bound M 2). lia. Qed.

  Lemma wf_split lo hi t p : wf M lo hi t -> num_keys t = M ->
    let l := fst (split_tree M t p) in let r := snd (split_tree M t p) in
    wf (M - 1) lo (tmax_key l) l /\ wf (M - 1) (tmax_key l) hi r /\ lo < tmax_key l < hi /\
    entries l ++ entries r = entries t /\ Nat.max (height l) (height r) = height t /\
    pid_of l = pid_of t /\ pid_of r = p.
  Proof.
    destruct div2_bounds as (Hh1 & Hh2 & Hh3 & Hh4).
    intros Hwf Hn. set (h := Nat.div2 M) in *.
    inversion Hwf as [cap0 lo0 hi0 pid es Hs Hne Hmk Hlen|cap0 lo0 hi0 pid cs Hkids Hne Hlen]; subst;
      cbn [num_keys] in Hn; cbn [split_tree fst snd tmax_key]; fold h.
    - destruct (ksorted_split lo es h Hs) as [Hs1 Hs2].
      assert (Hf : firstn h es <> []) by (apply firstn_ne; assumption).
      assert (Hsk : skipn h es <> []) by (apply skipn_ne; lia).
      rewrite (max_key_last lo (firstn h es) Hf).
      pose proof (last_key_firstn_lt lo es h Hs ltac:(lia)) as Hlt.
      rewrite <- (max_key_last lo es Hne) in Hlt.
      split; [|split; [|split; [|split; [|split]]]].
      + constructor; auto. * apply max_key_last; exact Hf. * rewrite firstn_length. lia.
      + constructor; auto.
        * rewrite (max_key_last (last_key lo (firstn h es))) by exact Hsk.
          rewrite last_key_split. symmetry. apply max_key_last. exact Hne.
        * rewrite skipn_length. lia.
      + split; [|exact Hlt]. destruct (firstn h es) as [|e r]; [congruence|]. destruct Hs1 as [H1 H2].
        cbn [last_key]. pose proof (last_key_ge _ _ H2). lia.
      + cbn [entries]. apply firstn_skipn.
      + reflexivity.
      + auto.
    - pose proof (wfk_sorted _ _ _ Hkids) as Hs. pose proof (wfk_last _ _ _ Hkids) as Hl.
      assert (Hf : firstn h cs <> []) by (apply firstn_ne; assumption).
      assert (Hsk : skipn h cs <> []) by (apply skipn_ne; lia).
      rewrite (max_key_last lo (firstn h cs) Hf).
      pose proof (last_key_firstn_lt lo cs h Hs ltac:(lia)) as Hlt. rewrite Hl in Hlt.
      rewrite <- (firstn_skipn h cs) in Hkids. apply wfk_app in Hkids. destruct Hkids as (mid & Hk1 & Hk2).
      rewrite (wfk_last _ _ _ Hk1).
      split; [|split; [|split; [|split; [|split]]]].
      + constructor; auto. rewrite firstn_length. lia.
      + constructor; auto. rewrite skipn_length. lia.
      + rewrite <- (wfk_last _ _ _ Hk1). split; [|exact Hlt].
        destruct (proj2 wf_bounds _ _ _ Hk1) as (_ & H & _). rewrite (wfk_last _ _ _ Hk1). apply H. exact Hf.
      + rewrite !entries_node, <- ents_app, firstn_skipn. reflexivity.
      + rewrite !height_node. rewrite <- (firstn_skipn h cs) at 3. rewrite hmax_app. lia.
      + auto.
  Qed.

  Lemma wfk_keys_lt lo lo' pre x : wf_kids lo lo' pre -> lo' < x -> keys_lt x pre.
  Proof.
    intros H Hx. pose proof (ksorted_keys_le_last _ _ (wfk_sorted _ _ _ H)) as Hle.
    rewrite (wfk_last _ _ _ H) in Hle. eapply Forall_impl; [|exact Hle]. cbn. intros; lia.
  Qed.

  Lemma SM1 : S (M - 1) = M.
  Proof. lia. Qed.

  (* abs of a node whose routed child changed *)
  Lemma abs_mid_update lo lo' ck hi pre post B B' k v :
    wf_kids lo lo' pre -> wf_kids ck hi post -> in_range lo' ck B -> in_range lo' ck B' -> lo' < k <= ck ->
    (forall k', alookup B' k' = if k' =? k then v else alookup B k') ->
    forall k', alookup (ents pre ++ B' ++ ents post) k' =
               if k' =? k then v else alookup (ents pre ++ B ++ ents post) k'.
  Proof.
    intros Hpre Hpost HB HB' Hk Hupd k'.
    rewrite (alookup_mid lo lo' ck hi _ B' _ k' (wfk_range _ _ _ Hpre) HB' (wfk_range _ _ _ Hpost)).
    rewrite (alookup_mid lo lo' ck hi _ B _ k' (wfk_range _ _ _ Hpre) HB (wfk_range _ _ _ Hpost)).
    destruct (N.eqb_spec k' k) as [->|Hne].
    - destruct (N.ltb_spec lo' k); [|lia]. destruct (N.leb_spec k ck); [|lia]. cbn [andb].
      rewrite Hupd, N.eqb_refl. reflexivity.
    - destruct ((lo' <? k') && (k' <=? ck)); [|reflexivity]. rewrite Hupd.
      destruct (N.eqb_spec k' k); [congruence|reflexivity].
  Qed.

  (* ---------- Tree.set ---------- *)
  Lemma tset_spec ps f : forall a t k v lo hi, (height t < f)%nat -> wf (M - 1) lo hi t -> lo < k <= hi ->
    exists a' t', tset M ps f a t k v = Some (a', t') /\ wf M lo hi t' /\
                  (forall k', abs t' k' = if k' =? k then v else abs t k') /\
                  height t' = height t /\ pid_of t' = pid_of t.
  Proof.
    induction f as [|f IH]; intros a t k v lo hi Hh Hwf Hk; [lia|].
    inversion Hwf as [cap0 lo0 hi0 pid es Hs Hne Hmk Hlen|cap0 lo0 hi0 pid cs Hkids Hne Hlen]; subst.
    - cbn [tset]. destruct (node_set_leaf_spec lo es k v Hs ltac:(lia)) as (Hs' & Hne' & Hab & Hlen' & Hlast & Hll).
      destruct (node_set wid es k v) as [es' added]. cbn [fst snd] in *.
      eexists _, _. split; [reflexivity|]. split; [|split; [|split]]; try reflexivity.
      + constructor; auto; [|lia].
        rewrite (max_key_last lo) by exact Hne'. rewrite (max_key_last lo) in Hk by exact Hne.
        rewrite Hlast by lia. symmetry. apply max_key_last. exact Hne.
      + intros k'. unfold abs. cbn [entries]. apply Hab.
    - destruct (wfk_route _ _ _ k Hkids Hk) as (pre & ck & c & post & lo' & -> & Hlt & Hpre & Hc & Hkc & Hpost).
      rewrite height_node, hmax_app, hmax_cons in Hh.
      destruct (IH a c k v lo' ck ltac:(lia) Hc Hkc) as (a2 & c' & Hrec & Hwf' & Habs' & Hh' & Hp').
      rewrite tset_node_step by (auto; lia). rewrite Hrec.
      pose proof (wf_range _ _ _ _ Hc) as HrB. pose proof (wf_range _ _ _ _ Hwf') as HrB'.
      unfold is_full. destruct (Nat.eqb_spec (num_keys c') M) as [Hfull|Hnf].
      + destruct (new_node ps a2) as [a3 p].
        destruct (wf_split lo' ck c' p Hwf' Hfull) as (Hl & Hr & Hlk & Hent & Hhs & Hpl & Hpr).
        destruct (split_tree M c' p) as [l r]. cbn [fst snd] in *.
        cbv zeta.
        rewrite (split_sets pre ck l r post c); [|eapply wfk_keys_lt; [exact Hpre|lia]|lia|lia|eapply wf_tmax; exact Hr].
        eexists _, _. split; [reflexivity|]. split; [|split; [|split]]; try reflexivity.
        * constructor.
          -- apply wfk_app. exists lo'. split; [exact Hpre|]. constructor; [exact Hl|]. constructor; [exact Hr|exact Hpost].
          -- destruct pre; discriminate.
          -- rewrite !app_length in *. cbn [length] in *. lia.
        * intros k'. unfold abs. rewrite !entries_node, !ents_app, !ents_cons.
          rewrite (app_assoc (entries l)), Hent.
          eapply abs_mid_update; eauto.
        * rewrite !height_node, !hmax_app, !hmax_cons. lia.
      + rewrite <- SM1 in Hwf'. apply wf_shrink in Hwf'; [|rewrite SM1; exact Hnf].
        eexists _, _. split; [reflexivity|]. split; [|split; [|split]]; try reflexivity.
        * constructor.
          -- apply wfk_app. exists lo'. split; [exact Hpre|]. constructor; [exact Hwf'|exact Hpost].
          -- destruct pre; discriminate.
          -- rewrite !app_length in *. cbn [length] in *. lia.
        * intros k'. unfold abs. rewrite !entries_node, !ents_app, !ents_cons.
          eapply abs_mid_update; eauto.
        * rewrite !height_node, !hmax_app, !hmax_cons. lia.
  Qed.

  (* ---------- the Tree object: Get / Set ---------- *)
  Definition valid_key (k : N) : Prop := 1 <= k <= absolute_max.
  Definition WFt (st : tstate) : Prop :=
    wf (M - 1) 0 absolute_max (root st) /\ (height (root st) <= depth st)%nat.
  Definition abs_st (st : tstate) (k : N) : N := abs (root st) k.

  Lemma tree_get_spec st k : WFt st -> valid_key k -> tree_get st k = abs_st st k.
  Proof.
    intros [Hwf Hd] Hk. unfold tree_get, abs_st. eapply tget_spec; [|exact Hwf|unfold valid_key in Hk; lia]. lia.
  Qed.

  Lemma wf_set_pid cap lo hi t p : wf cap lo hi t -> wf cap lo hi (set_pid t p).
  Proof. intros H. inversion H; subst; cbn [set_pid]; constructor; auto. Qed.
  Lemma entries_set_pid t p : entries (set_pid t p) = entries t.
  Proof. destruct t; reflexivity. Qed.
  Lemma height_set_pid t p : height (set_pid t p) = height t.
  Proof. destruct t; reflexivity. Qed.
  Lemma tmax_set_pid t p : tmax_key (set_pid t p) = tmax_key t.
  Proof. destruct t; reflexivity. Qed.

  Lemma node_set_nil (k : N) (t : tree) : k <> 0 -> fst (node_set pid_of [] k t) = [(k, t)].
  Proof.
    intros Hk. pose proof (node_set_insert pid_of [] [] k t Hk (Forall_nil _) I) as H. cbn [app] in H.
    rewrite H. reflexivity.
  Qed.

  Lemma node_set_snoc1 (k1 k : N) (t1 t : tree) : k <> 0 -> k1 < k ->
    fst (node_set pid_of [(k1, t1)] k t) = [(k1, t1); (k, t)].
  Proof.
    intros Hk Hlt.
    assert (Hl : keys_lt k [(k1, t1)]) by (repeat constructor; exact Hlt).
    pose proof (node_set_insert pid_of [(k1, t1)] [] k t Hk Hl I) as H. cbn [app] in H.
    rewrite H. reflexivity.
  Qed.

  Lemma tree_set_spec ps st k v : WFt st -> valid_key k ->
    exists st', tree_set M ps st k v = Some st' /\ WFt st' /\
                forall k', abs_st st' k' = if k' =? k then v else abs_st st k'.
  Proof.
    intros [Hwf Hd] Hk. unfold valid_key in Hk. unfold tree_set.
    destruct (N.eqb_spec k 0); [lia|]. destruct (N.eqb_spec k (absolute_max + 1)); [unfold absolute_max in *; lia|].
    cbn [orb].
    destruct (tset_spec ps (S (depth st)) (al st) (root st) k v 0 absolute_max ltac:(lia) Hwf ltac:(lia))
      as (a1 & r1 & Hrec & Hwf1 & Habs1 & Hh1 & Hp1).
    rewrite Hrec. unfold is_full. destruct (Nat.eqb_spec (num_keys r1) M) as [Hfull|Hnf].
    - destruct (new_node ps a1) as [a2 pr].
      destruct (wf_split 0 absolute_max r1 pr Hwf1 Hfull) as (Hl & Hr & Hlk & Hent & Hhs & Hpl & Hpr).
      destruct (split_tree M r1 pr) as [l0 r]. cbn [fst snd] in *.
      destruct (new_node ps a2) as [a3 pl].
      rewrite tmax_set_pid. rewrite node_set_nil by lia.
      rewrite (wf_tmax _ _ _ _ Hr). rewrite node_set_snoc1 by (unfold absolute_max in *; lia).
      eexists. split; [reflexivity|]. split; [split|]; cbn [root depth].
      + constructor; [|discriminate|cbn [length]; lia].
        constructor; [apply wf_set_pid; exact Hl|]. constructor; [exact Hr|constructor].
      + rewrite height_node. cbn [hmax fold_right snd]. rewrite height_set_pid. lia.
      + intros k'. unfold abs_st, abs. cbn [root]. rewrite entries_node. unfold ents. cbn [flat_map snd].
        rewrite entries_set_pid, app_nil_r, Hent. apply Habs1.
    - rewrite <- SM1 in Hwf1. apply wf_shrink in Hwf1; [|rewrite SM1; exact Hnf].
      eexists. split; [reflexivity|]. split; [split|]; cbn [root depth]; auto. lia.
  Qed.

  (* ---------- the initial tree (NewTree / NewTreePersistent on a new file / Reset) ---------- *)
  Definition init_tree (p1 p2 : N) : tree := Node p1 [(absolute_max, Leaf p2 [(absolute_max, 0)])].

  Lemma init_root_spec ps a : exists st p1 p2,
    init_root M ps a = Some st /\ root st = init_tree p1 p2 /\ depth st = 1%nat /\
    new_node ps a = (fst (new_node ps a), p1) /\ new_node ps (fst (new_node ps a)) = (fst (new_node ps (fst (new_node ps a))), p2) /\
    al st = add_leaf_keys (fst (new_node ps (fst (new_node ps a)))) 1.
  Proof.
    unfold init_root. destruct (new_node ps a) as [a1 p1] eqn:E1. cbn [fst].
    destruct (new_node ps a1) as [a2 p2] eqn:E2. cbn [fst].
    assert (Hs : tset M ps 2 a1 (Node p1 []) absolute_max 0 =
                 Some (add_leaf_keys a2 1, init_tree p1 p2)).
    { cbn [tset]. change (node_search pid_of [] absolute_max) with O.
      destruct (Nat.leb_spec M 0); [lia|].
      change (key_at (@nil (N * tree)) 0 =? 0) with true. cbv iota. rewrite E2.
      change (insert_at [] 0 (absolute_max, Leaf p2 [])) with [(absolute_max, Leaf p2 [])].
      cbn [nth_error].
      change (node_set wid [] absolute_max 0) with ([(absolute_max, 0)], 1%Z).
      cbv iota. unfold is_full. cbn [num_keys length].
      destruct (Nat.eqb_spec 1 M); [lia|]. reflexivity. }
    rewrite Hs. eexists _, p1, p2. repeat split; reflexivity.
  Qed.

  Lemma init_tree_wf p1 p2 : wf (M - 1) 0 absolute_max (init_tree p1 p2) /\ forall k, abs (init_tree p1 p2) k = 0.
  Proof.
    split.
    - constructor; [|discriminate|cbn [length]; lia].
      constructor; [|constructor]. constructor; [cbn; unfold absolute_max; lia|discriminate|reflexivity|cbn [length]; lia].
    - intros k. unfold abs, init_tree. cbn [entries flat_map snd app alookup fst]. destruct (absolute_max =? k); reflexivity.
  Qed.

  Lemma init_root_wf ps a : exists st, init_root M ps a = Some st /\ WFt st /\ forall k, abs_st st k = 0.
  Proof.
    destruct (init_root_spec ps a) as (st & p1 & p2 & Hi & Hr & Hd & _).
    exists st. split; [exact Hi|]. unfold WFt, abs_st. rewrite Hr, Hd.
    destruct (init_tree_wf p1 p2) as [H1 H2]. repeat split; auto.
  Qed.

  (* ---------- DeleteBelow ---------- *)
  Definition dbf (ts v : N) : N := if v <? ts then 0 else v.

  Lemma wf_lower :
    (forall cap lo hi t, wf cap lo hi t -> forall lo2, lo2 <= lo -> wf cap lo2 hi t) /\
    (forall lo hi cs, wf_kids lo hi cs -> forall lo2, lo2 <= lo -> cs <> [] -> wf_kids lo2 hi cs).
  Proof.
    apply wf_mutind.
    - intros cap lo hi pid es Hs Hne Hmk Hlen lo2 Hle. constructor; auto. eapply ksorted_weaken; eauto.
    - intros cap lo hi pid cs Hk IHk Hne Hlen lo2 Hle. constructor; auto.
    - intros lo lo2 Hle Hne. congruence.
    - intros lo k c rest hi Hc IHc Hk IHk lo2 Hle _. constructor; auto.
  Qed.

  Lemma alookup_two lo mid hi X Y k : in_range lo mid X -> in_range mid hi Y ->
    alookup (X ++ Y) k = if k <=? mid then alookup X k else alookup Y k.
  Proof.
    intros HX HY. destruct (N.leb_spec k mid).
    - apply alookup_app_r. eapply in_range_ne_low; [exact HY|lia].
    - apply alookup_app_l. eapply in_range_ne_high; [exact HX|lia].
  Qed.

  Lemma alookup_out_low lo hi X k : in_range lo hi X -> k <= lo -> alookup X k = 0.
  Proof. intros H Hk. apply alookup_notin. eapply in_range_ne_low; eauto. Qed.

  Section Compact.
    Variable ts : N.
    Variable f : nat.
    Variable rec : alloc -> tree -> option (alloc * tree * nat).
    Hypothesis Hrec : forall a c cap lo hi, (height c < f)%nat -> wf cap lo hi c ->
      exists a' c' rem, rec a c = Some (a', c', rem) /\ wf cap lo hi c' /\
        (forall k, abs c' k = dbf ts (abs c k)) /\ (rem = O -> c' = Leaf (pid_of c') [(hi, 0)]) /\
        (height c' <= height c)%nat /\ pid_of c' = pid_of c.

    Lemma compact_children_spec : forall cs a lo hi, wf_kids lo hi cs -> cs <> [] -> (hmax cs < f)%nat ->
      exists a' cs', compact_children rec a cs = Some (a', cs') /\ wf_kids lo hi cs' /\ cs' <> [] /\
        (length cs' <= length cs)%nat /\ (forall k, alookup (ents cs') k = dbf ts (alookup (ents cs) k)) /\
        (hmax cs' <= hmax cs)%nat.
    Proof.
      induction cs as [|[ck c] rest IH]; intros a lo hi Hk Hne Hh; [congruence|].
      inversion Hk as [|lo0 k0 c0 rest0 hi0 Hc Hrest]; subst.
      rewrite hmax_cons in Hh.
      destruct (Hrec a c _ lo ck ltac:(lia) Hc) as (a1 & c1 & rem & Hr & Hwf1 & Habs1 & Hrem & Hh1 & Hp1).
      cbn [compact_children]. rewrite Hr.
      pose proof (wf_range _ _ _ _ Hc) as HrC. pose proof (wf_range _ _ _ _ Hwf1) as HrC1.
      pose proof (wf_lt _ _ _ _ Hc) as Hlt.
      destruct rest as [|e rest'].
      - inversion Hrest; subst. rewrite Bool.andb_false_r. cbn [compact_children].
        eexists _, _. split; [reflexivity|]. split; [constructor; [exact Hwf1|constructor]|].
        split; [discriminate|]. split; [cbn; lia|]. split.
        + intros k. unfold ents. cbn [flat_map snd]. rewrite !app_nil_r. apply Habs1.
        + rewrite !hmax_cons. cbn [hmax fold_right]. lia.
      - set (rest := e :: rest') in *.
        assert (Hne' : rest <> []) by discriminate.
        pose proof (wfk_range _ _ _ Hrest) as HrR.
        cbn [negb]. rewrite Bool.andb_true_r.
        destruct (Nat.eqb_spec rem 0) as [H0|Hn0].
        + destruct (IH (free_child a1 c1) ck hi Hrest Hne' ltac:(lia)) as (a2 & cs' & Hcc & Hk' & Hne2 & Hlen & Habs & Hhm).
          fold rest. rewrite Hcc.
          eexists _, _. split; [reflexivity|]. split; [eapply (proj2 wf_lower); eauto; lia|].
          split; [exact Hne2|]. split; [cbn [length]; lia|]. split.
          * intros k. rewrite ents_cons. rewrite (alookup_two lo ck hi _ _ k HrC HrR). rewrite Habs.
            destruct (N.leb_spec k ck).
            -- rewrite (alookup_out_low ck hi (ents rest) k HrR) by lia.
               specialize (Habs1 k). unfold abs in Habs1. rewrite (Hrem H0) in Habs1. cbn [entries] in Habs1.
               rewrite <- Habs1. unfold dbf. cbn. destruct (ck =? k); destruct (0 <? ts); reflexivity.
            -- reflexivity.
          * rewrite hmax_cons. lia.
        + destruct (IH a1 ck hi Hrest Hne' ltac:(lia)) as (a2 & cs' & Hcc & Hk' & Hne2 & Hlen & Habs & Hhm).
          fold rest. rewrite Hcc.
          eexists _, _. split; [reflexivity|]. split; [constructor; assumption|].
          split; [discriminate|]. split; [cbn [length]; lia|]. split.
          * intros k. rewrite !ents_cons.
            rewrite (alookup_two lo ck hi _ _ k HrC1 (wfk_range _ _ _ Hk')).
            rewrite (alookup_two lo ck hi _ _ k HrC HrR).
            destruct (k <=? ck); [apply Habs1|apply Habs].
          * rewrite !hmax_cons. lia.
    Qed.
  End Compact.

  Lemma tcompact_spec ts f : forall a t cap lo hi, (height t < f)%nat -> wf cap lo hi t ->
    exists a' t' rem, tcompact f ts a t = Some (a', t', rem) /\ wf cap lo hi t' /\
      (forall k, abs t' k = dbf ts (abs t k)) /\ (rem = O -> t' = Leaf (pid_of t') [(hi, 0)]) /\
      (height t' <= height t)%nat /\ pid_of t' = pid_of t.
  Proof.
    induction f as [|f IH]; intros a t cap lo hi Hh Hwf; [lia|].
    inversion Hwf as [cap0 lo0 hi0 pid es Hs Hne Hmk Hlen|cap0 lo0 hi0 pid cs Hkids Hne Hlen]; subst; cbn [tcompact].
    - destruct (node_compact_spec lo es ts Hs Hne) as (Hs' & Hne' & Hmk' & Hab & Hrem & Hlen').
      destruct (node_compact es ts) as [es' rem]. cbn [fst snd] in *.
      eexists _, _, _. split; [reflexivity|]. split; [constructor; auto; lia|]. split; [|split; [|split]]; auto.
      intros H0. cbn [pid_of]. rewrite (Hrem H0). reflexivity.
    - rewrite height_node in Hh.
      destruct (compact_children_spec ts f (tcompact f ts) IH cs a lo hi Hkids Hne ltac:(lia))
        as (a' & cs' & Hcc & Hk' & Hne' & Hlen' & Habs & Hhm).
      rewrite Hcc. eexists _, _, _. split; [reflexivity|]. split; [constructor; auto; lia|].
      split; [|split; [|split]].
      + intros k. unfold abs. rewrite !entries_node. apply Habs.
      + intros H0. destruct cs'; [congruence|discriminate].
      + rewrite !height_node. lia.
      + reflexivity.
  Qed.

  Lemma tree_delete_below_spec st ts : WFt st ->
    exists st', tree_delete_below st ts = Some st' /\ WFt st' /\
                forall k, abs_st st' k = dbf ts (abs_st st k).
  Proof.
    intros [Hwf Hd]. unfold tree_delete_below.
    match goal with |- context [tcompact ?f ts ?a (root st)] =>
      destruct (tcompact_spec ts f a (root st) _ _ _ ltac:(lia) Hwf) as (a' & t' & rem & Hc & Hwf' & Habs & _ & Hh & _) end.
    rewrite Hc. eexists. split; [reflexivity|]. split; [split; cbn [root depth]; auto; lia|exact Habs].
  Qed.

  (* ---------- IterateKV ---------- *)
  Definition nz (e : N * N) : bool := negb (snd e =? 0).

  Lemma max_key_map_keys {V W} (g : N * V -> N * W) es : (forall e, fst (g e) = fst e) -> es <> [] ->
    max_key (map g es) = max_key es.
  Proof.
    intros Hg Hne. rewrite (max_key_last 0) by (destruct es; [congruence|discriminate]).
    rewrite (max_key_last 0 es Hne). apply last_key_map_keys. exact Hg.
  Qed.

  Section Iter.
    Variable fn : N -> N -> N.

    Lemma titer_kids_spec f
      (IH : forall t cap lo hi, (height t < f)%nat -> wf cap lo hi t ->
              wf cap lo hi (snd (titer f fn t)) /\ (forall k, abs (snd (titer f fn t)) k = upd_val fn k (abs t k)) /\
              fst (titer f fn t) = filter nz (entries t) /\ height (snd (titer f fn t)) = height t /\
              pid_of (snd (titer f fn t)) = pid_of t) :
      forall cs lo hi, wf_kids lo hi cs -> (hmax cs < f)%nat ->
        let rs := map (fun e => (fst e, titer f fn (snd e))) cs in
        let cs' := map (fun r => (fst r, snd (snd r))) rs in
        wf_kids lo hi cs' /\ (forall k, alookup (ents cs') k = upd_val fn k (alookup (ents cs) k)) /\
        flat_map (fun r => fst (snd r)) rs = filter nz (ents cs) /\ hmax cs' = hmax cs /\ length cs' = length cs.
    Proof.
      induction cs as [|[ck c] rest IHcs]; intros lo hi Hk Hh.
      - inversion Hk; subst. cbn. repeat split; constructor.
      - inversion Hk as [|lo0 k0 c0 rest0 hi0 Hc Hrest]; subst. rewrite hmax_cons in Hh.
        destruct (IH c _ lo ck ltac:(lia) Hc) as (Hwf1 & Habs1 & Hvis1 & Hh1 & Hp1).
        destruct (IHcs ck hi Hrest ltac:(lia)) as (Hk' & Habs & Hvis & Hhm & Hlen).
        cbn [map fst snd flat_map] in *. cbv zeta in *.
        split; [constructor; assumption|]. split; [|split; [|split]].
        + intros k. rewrite !ents_cons.
          rewrite (alookup_two lo ck hi _ _ k (wf_range _ _ _ _ Hwf1) (wfk_range _ _ _ Hk')).
          rewrite (alookup_two lo ck hi _ _ k (wf_range _ _ _ _ Hc) (wfk_range _ _ _ Hrest)).
          destruct (k <=? ck); [apply Habs1|apply Habs].
        + rewrite ents_cons, filter_app, Hvis1, Hvis. reflexivity.
        + rewrite !hmax_cons. lia.
        + cbn [length]. lia.
    Qed.

    Lemma titer_spec f : forall t cap lo hi, (height t < f)%nat -> wf cap lo hi t ->
      wf cap lo hi (snd (titer f fn t)) /\ (forall k, abs (snd (titer f fn t)) k = upd_val fn k (abs t k)) /\
      fst (titer f fn t) = filter nz (entries t) /\ height (snd (titer f fn t)) = height t /\
      pid_of (snd (titer f fn t)) = pid_of t.
    Proof.
      induction f as [|f IH]; intros t cap lo hi Hh Hwf; [lia|].
      inversion Hwf as [cap0 lo0 hi0 pid es Hs Hne Hmk Hlen|cap0 lo0 hi0 pid cs Hkids Hne Hlen]; subst; cbn [titer fst snd].
      - split; [|split; [|split; [|split]]]; try reflexivity.
        + constructor.
          * apply ksorted_map_keys; [apply iter_entry_fst|exact Hs].
          * destruct es; [congruence|discriminate].
          * apply max_key_map_keys; [apply iter_entry_fst|exact Hne].
          * rewrite map_length. exact Hlen.
        + intros k. unfold abs. cbn [entries]. apply alookup_iter.
      - rewrite height_node in Hh.
        destruct (titer_kids_spec f IH cs lo hi Hkids ltac:(lia)) as (Hk' & Habs & Hvis & Hhm & Hlen').
        cbv zeta in *.
        split; [|split; [|split; [|split]]]; try reflexivity.
        + constructor; [exact Hk'| |lia]. destruct cs; [congruence|discriminate].
        + intros k. unfold abs. rewrite !entries_node. apply Habs.
        + rewrite entries_node. exact Hvis.
        + rewrite !height_node, Hhm. reflexivity.
    Qed.
  End Iter.

  Lemma in_sorted_alookup lo es k v : ksorted lo es -> v <> 0 -> (In (k, v) es <-> alookup es k = v).
  Proof.
    revert lo. induction es as [|e r IH]; intros lo Hs Hv.
    - cbn. split; [tauto|congruence].
    - pose proof (ksorted_tail_gt _ _ _ Hs) as Hgt. destruct Hs as [H1 H2]. cbn [In alookup].
      destruct (N.eqb_spec (fst e) k) as [Hek|Hne].
      + split.
        * intros [He|Hin]; [subst e; reflexivity|].
          exfalso. unfold keys_gt in Hgt. rewrite Forall_forall in Hgt. apply Hgt in Hin. cbn in Hin. lia.
        * intros <-. left. destruct e; cbn in *; congruence.
      + rewrite <- (IH _ H2 Hv). split; [intros [He|Hin]; [subst e; cbn in Hne; congruence|exact Hin]|auto].
  Qed.

  Lemma tree_iterate_spec st fn : WFt st ->
    let vis := fst (tree_iterate st fn) in let st' := snd (tree_iterate st fn) in
    WFt st' /\ (forall k, abs_st st' k = upd_val fn k (abs_st st k)) /\
    ksorted 0 vis /\ (forall k v, In (k, v) vis <-> (abs_st st k = v /\ v <> 0)).
  Proof.
    intros [Hwf Hd]. unfold tree_iterate.
    destruct (titer_spec fn (S (depth st)) (root st) _ _ _ ltac:(lia) Hwf) as (Hwf' & Habs & Hvis & Hh & _).
    destruct (titer (S (depth st)) fn (root st)) as [vis r1]. cbn [fst snd] in *.
    split; [split; cbn [root depth]; [exact Hwf'|lia]|]. split; [exact Habs|].
    pose proof (wf_sorted _ _ _ _ Hwf) as Hs. subst vis. split; [apply ksorted_filter; exact Hs|].
    intros k v. rewrite filter_In. unfold nz. cbn [snd]. unfold abs_st, abs.
    destruct (N.eqb_spec v 0) as [->|Hv]; cbn [negb].
    - split; [intros [_ H]; discriminate|intros [_ H]; congruence].
    - rewrite (in_sorted_alookup 0 _ k v Hs Hv). tauto.
  Qed.

  (* ---------- Reset ---------- *)
  Lemma tree_reset_spec ps st : exists st', tree_reset M ps st = Some st' /\ WFt st' /\ forall k, abs_st st' k = 0.
  Proof. unfold tree_reset, tree_reset_buf. apply init_root_wf. Qed.
  Lemma tree_new_mem_spec ps : exists st, tree_new_mem M ps = Some st /\ WFt st /\ forall k, abs_st st k = 0.
  Proof. unfold tree_new_mem, tree_reset_buf. apply init_root_wf. Qed.
  Lemma tree_new_file_spec ps : exists st, tree_new_file M ps = Some st /\ WFt st /\ forall k, abs_st st k = 0.
  Proof. unfold tree_new_file. apply init_root_wf. Qed.

  (* ---------- histories ---------- *)
  Inductive op := OSet (k v : N) | ODeleteBelow (ts : N) | OIterate (fn : N -> N -> N) | OReset.

  Definition op_ok (o : op) : Prop := match o with OSet k _ => valid_key k | _ => True end.

  Definition step ps (st : tstate) (o : op) : option tstate :=
    match o with
    | OSet k v => tree_set M ps st k v
    | ODeleteBelow ts => tree_delete_below st ts
    | OIterate fn => Some (snd (tree_iterate st fn))
    | OReset => tree_reset M ps st
    end.
  Definition run ps (ops : list op) (st : tstate) : option tstate :=
    fold_left (fun s o => match s with Some s => step ps s o | None => None end) ops (Some st).

  (* the reference: a total map N -> N with 0 = absent *)
  Definition ref_step (m : N -> N) (o : op) : N -> N :=
    match o with
    | OSet k v => fun k' => if k' =? k then v else m k'
    | ODeleteBelow ts => fun k => dbf ts (m k)
    | OIterate fn => fun k => upd_val fn k (m k)
    | OReset => fun _ => 0
    end.
  Definition ref_run (ops : list op) (m : N -> N) : N -> N := fold_left ref_step ops m.

  Lemma run_none ps ops : fold_left (fun s o => match s with Some s => step ps s o | None => None end) ops None = None.
  Proof. induction ops; cbn; auto. Qed.

  Lemma history_spec ps ops : forall st m, WFt st -> (forall k, abs_st st k = m k) -> Forall op_ok ops ->
    exists st', run ps ops st = Some st' /\ WFt st' /\ forall k, abs_st st' k = ref_run ops m k.
  Proof.
    induction ops as [|o ops IH]; intros st m Hwf Habs Hok.
    - exists st. split; [reflexivity|]. split; [exact Hwf|exact Habs].
    - inversion Hok as [|o' ops' Ho Hops]; subst. unfold run, ref_run. cbn [fold_left].
      assert (Hstep : exists st1, step ps st o = Some st1 /\ WFt st1 /\ forall k, abs_st st1 k = ref_step m o k).
      { destruct o as [k v|ts|fn|]; cbn [step ref_step op_ok] in *.
        - destruct (tree_set_spec ps st k v Hwf Ho) as (st1 & H1 & H2 & H3). exists st1. split; [exact H1|]. split; [exact H2|].
          intros k'. rewrite H3, Habs. reflexivity.
        - destruct (tree_delete_below_spec st ts Hwf) as (st1 & H1 & H2 & H3). exists st1. split; [exact H1|]. split; [exact H2|].
          intros k'. rewrite H3, Habs. reflexivity.
        - destruct (tree_iterate_spec st fn Hwf) as (H2 & H3 & _). eexists. split; [reflexivity|]. split; [exact H2|].
          intros k'. rewrite H3, Habs. reflexivity.
        - destruct (tree_reset_spec ps st) as (st1 & H1 & H2 & H3). exists st1. split; [exact H1|]. split; [exact H2|exact H3]. }
      destruct Hstep as (st1 & Hs & Hwf1 & Habs1). rewrite Hs.
      apply (IH st1 (ref_step m o) Hwf1 Habs1 Hops).
  Qed.

  (* ---------- page accounting through the operations ---------- *)
  Lemma split_pids t p q : cnt q (pids (fst (split_tree M t p)) ++ pids (snd (split_tree M t p))) = cnt q (p :: pids t).
  Proof.
    destruct t as [pid es|pid cs]; cbn [split_tree fst snd].
    - cbn [pids app cnt]. lia.
    - rewrite !pids_node.
      assert (E : pidsk cs = pidsk (firstn (Nat.div2 M) cs) ++ pidsk (skipn (Nat.div2 M) cs))
        by (rewrite <- pidsk_app, firstn_skipn; reflexivity).
      rewrite E. cbn [app cnt]. rewrite !cnt_app. cbn [cnt]. rewrite ?cnt_app. lia.
  Qed.

  Ltac cnt_norm := rewrite ?pids_node, ?pidsk_app, ?pidsk_cons; cbn [app cnt]; rewrite ?cnt_app; cbn [cnt]; rewrite ?cnt_app.

  Lemma tset_ainv ps f : forall a t k v lo hi a' t', (height t < f)%nat -> wf (M - 1) lo hi t -> lo < k <= hi ->
    tset M ps f a t k v = Some (a', t') ->
    forall R n, AInv ps a (pids t ++ R) (length (entries t) + n) -> AInv ps a' (pids t' ++ R) (length (entries t') + n).
  Proof.
    induction f as [|f IH]; intros a t k v lo hi a' t' Hh Hwf Hk Hts R n HA; [lia|].
    inversion Hwf as [cap0 lo0 hi0 pid es Hs Hne Hmk Hlen|cap0 lo0 hi0 pid cs Hkids Hne Hlen]; subst.
    - cbn [tset] in Hts. destruct (node_set_leaf_spec lo es k v Hs ltac:(lia)) as (_ & _ & _ & Hlen' & _ & _).
      destruct (node_set wid es k v) as [es' added]. cbn [fst snd] in *. injection Hts as <- <-.
      cbn [pids entries] in *. eapply add_leaf_keys_AInv; [exact HA|]. lia.
    - destruct (wfk_route _ _ _ k Hkids Hk) as (pre & ck & c & post & lo' & -> & Hlt & Hpre & Hc & Hkc & Hpost).
      rewrite height_node, hmax_app, hmax_cons in Hh.
      destruct (tset_spec ps f a c k v lo' ck ltac:(lia) Hc Hkc) as (a2 & c' & Hrec & Hwf' & _ & _ & _).
      rewrite tset_node_step in Hts by (auto; lia). rewrite Hrec in Hts.
      set (R' := pid :: pidsk pre ++ pidsk post ++ R).
      set (n' := (length (ents pre) + length (ents post) + n)%nat).
      assert (HA2 : AInv ps a2 (pids c' ++ R') (length (entries c') + n')).
      { eapply (IH a c k v lo' ck a2 c'); eauto; [lia|].
        eapply AInv_perm; [| |exact HA].
        - intros p. unfold R'. cnt_norm. lia.
        - unfold n'. rewrite entries_node, ents_app, ents_cons, !app_length. lia. }
      unfold is_full in Hts. destruct (Nat.eqb_spec (num_keys c') M) as [Hfull|Hnf].
      + pose proof (new_node_AInv ps a2 _ _ HA2) as HA3.
        destruct (new_node ps a2) as [a3 p]. cbn [fst snd] in HA3.
        destruct (wf_split lo' ck c' p Hwf' Hfull) as (Hl & Hr & Hlk & Hent & _).
        pose proof (split_pids c' p) as Hsp.
        destruct (split_tree M c' p) as [l r]. cbn [fst snd] in *. cbv zeta in Hts.
        rewrite (split_sets pre ck l r post c) in Hts; [|eapply wfk_keys_lt; [exact Hpre|lia]|lia|lia|eapply wf_tmax; exact Hr].
        injection Hts as <- <-.
        eapply AInv_perm; [| |exact HA3].
        * intros q. specialize (Hsp q). unfold R'. cnt_norm. rewrite cnt_app in Hsp. cbn [cnt] in Hsp. lia.
        * unfold n'. rewrite entries_node, ents_app, !ents_cons, !app_length, <- Hent, !app_length. lia.
      + injection Hts as <- <-.
        eapply AInv_perm; [| |exact HA2].
        * intros q. unfold R'. cnt_norm. lia.
        * unfold n'. rewrite entries_node, ents_app, ents_cons, !app_length. lia.
  Qed.

  Section CompactA.
    Variable ps ts : N.
    Variable f : nat.
    Variable rec : alloc -> tree -> option (alloc * tree * nat).
    Hypothesis Hrec : forall a c cap lo hi, (height c < f)%nat -> wf cap lo hi c ->
      exists a' c' rem, rec a c = Some (a', c', rem) /\ wf cap lo hi c' /\
        (forall k, abs c' k = dbf ts (abs c k)) /\ (rem = O -> c' = Leaf (pid_of c') [(hi, 0)]) /\
        (height c' <= height c)%nat /\ pid_of c' = pid_of c.
    Hypothesis HrecA : forall a c cap lo hi a' c' rem, (height c < f)%nat -> wf cap lo hi c ->
      rec a c = Some (a', c', rem) ->
      forall R n, AInv ps a (pids c ++ R) n -> AInv ps a' (pids c' ++ R) (length (entries c') + n).

    Lemma compact_children_ainv : forall cs a lo hi a' cs', wf_kids lo hi cs -> (hmax cs < f)%nat ->
      compact_children rec a cs = Some (a', cs') ->
      forall R n, AInv ps a (pidsk cs ++ R) n -> AInv ps a' (pidsk cs' ++ R) (length (ents cs') + n).
    Proof.
      induction cs as [|[ck c] rest IH]; intros a lo hi a' cs' Hk Hh Hcc R n HA.
      - cbn in Hcc. injection Hcc as <- <-. exact HA.
      - inversion Hk as [|lo0 k0 c0 rest0 hi0 Hc Hrest]; subst. rewrite hmax_cons in Hh.
        destruct (Hrec a c _ lo ck ltac:(lia) Hc) as (a1 & c1 & rem & Hr & Hwf1 & _ & Hrem & _ & _).
        cbn [compact_children] in Hcc. rewrite Hr in Hcc.
        rewrite pidsk_cons, <- app_assoc in HA.
        pose proof (HrecA a c _ lo ck a1 c1 rem ltac:(lia) Hc Hr _ _ HA) as HA1.
        destruct (Nat.eqb rem 0 && negb match rest with [] => true | _ :: _ => false end) eqn:Efree.
        + apply andb_prop in Efree. destruct Efree as [E0 _]. apply Nat.eqb_eq in E0.
          rewrite (Hrem E0) in HA1. cbn [pids entries length app] in HA1.
          eapply (IH _ ck hi a' cs' Hrest ltac:(lia) Hcc).
          apply free_child_AInv. rewrite (Hrem E0). cbn [pid_of num_keys length].
          eapply AInv_perm; [| |exact HA1]; [reflexivity|lia].
        + destruct (compact_children rec a1 rest) as [[a2 rest']|] eqn:Ecc; [|discriminate].
          injection Hcc as <- <-.
          assert (HA1' : AInv ps a1 (pidsk rest ++ pids c1 ++ R) (length (entries c1) + n)).
          { eapply AInv_perm; [| |exact HA1]; [intros q; rewrite !cnt_app; lia|reflexivity]. }
          pose proof (IH _ ck hi a2 rest' Hrest ltac:(lia) Ecc _ _ HA1') as HA2.
          eapply AInv_perm; [| |exact HA2].
          * intros q. rewrite pidsk_cons, !cnt_app. lia.
          * rewrite ents_cons, app_length. lia.
    Qed.
  End CompactA.

  Lemma tcompact_ainv ps ts f : forall a t cap lo hi a' t' rem, (height t < f)%nat -> wf cap lo hi t ->
    tcompact f ts a t = Some (a', t', rem) ->
    forall R n, AInv ps a (pids t ++ R) n -> AInv ps a' (pids t' ++ R) (length (entries t') + n).
  Proof.
    induction f as [|f IH]; intros a t cap lo hi a' t' rem Hh Hwf Htc R n HA; [lia|].
    inversion Hwf as [cap0 lo0 hi0 pid es Hs Hne Hmk Hlen|cap0 lo0 hi0 pid cs Hkids Hne Hlen]; subst; cbn [tcompact] in Htc.
    - destruct (node_compact es ts) as [es' rem']. injection Htc as <- <- <-. cbn [pids entries] in *.
      eapply add_leaf_keys_AInv; [exact HA|]. lia.
    - rewrite height_node in Hh.
      destruct (compact_children (tcompact f ts) a cs) as [[a1 cs']|] eqn:Ecc; [|discriminate].
      injection Htc as <- <- <-. rewrite pids_node in *. rewrite entries_node.
      assert (HA' : AInv ps a (pidsk cs ++ pid :: R) n).
      { eapply AInv_perm; [| |exact HA]; [intros q; cbn [app cnt]; rewrite !cnt_app; cbn [cnt]; lia|reflexivity]. }
      pose proof (compact_children_ainv ps ts f (tcompact f ts) (tcompact_spec ts f) (IH) cs a lo hi a1 cs' Hkids ltac:(lia) Ecc _ _ HA') as HA2.
      eapply AInv_perm; [| |exact HA2]; [intros q; cbn [app cnt]; rewrite !cnt_app; cbn [cnt]; lia|reflexivity].
  Qed.

  Lemma titer_shape fn f : forall t, pids (snd (titer f fn t)) = pids t /\
                                     length (entries (snd (titer f fn t))) = length (entries t).
  Proof.
    induction f as [|f IH]; intros t; [split; reflexivity|].
    destruct t as [pid es|pid cs]; cbn [titer snd].
    - cbn [pids entries]. rewrite map_length. split; reflexivity.
    - rewrite !pids_node, !entries_node. rewrite map_map. cbn [fst snd].
      assert (H : pidsk (map (fun x => (fst x, snd (titer f fn (snd x)))) cs) = pidsk cs /\
                  length (ents (map (fun x => (fst x, snd (titer f fn (snd x)))) cs)) = length (ents cs)).
      { induction cs as [|[k c] r IHr]; [split; reflexivity|]. cbn [map fst snd].
        rewrite !pidsk_cons, !ents_cons, !app_length. destruct IHr as [-> ->]. destruct (IH c) as [-> ->]. split; reflexivity. }
      destruct H as [-> ->]. split; reflexivity.
  Qed.

  (* ---------- the full state invariant ---------- *)
  Definition WFa ps (st : tstate) : Prop :=
    AInv ps (al st) (pids (root st)) (length (entries (root st))) /\ pid_of (root st) = 1.
  Definition WF ps (st : tstate) : Prop := WFt st /\ WFa ps st.

  Lemma cnt_set_pid t p q : cnt q (pid_of t :: pids (set_pid t p)) = cnt q (p :: pids t).
  Proof. destruct t; cbn [set_pid pid_of pids cnt]; lia. Qed.

  Lemma tree_set_wfa ps st k v st' : WFt st -> WFa ps st -> valid_key k -> tree_set M ps st k v = Some st' -> WFa ps st'.
  Proof.
    intros [Hwf Hd] [HA Hp] Hk. unfold valid_key in Hk. unfold tree_set.
    destruct (N.eqb_spec k 0); [lia|]. destruct (N.eqb_spec k (absolute_max + 1)); [unfold absolute_max in *; lia|].
    cbn [orb].
    destruct (tset_spec ps (S (depth st)) (al st) (root st) k v 0 absolute_max ltac:(lia) Hwf ltac:(lia))
      as (a1 & r1 & Hrec & Hwf1 & _ & _ & Hp1).
    rewrite Hrec.
    assert (HA1 : AInv ps a1 (pids r1) (length (entries r1))).
    { pose proof (tset_ainv ps (S (depth st)) (al st) (root st) k v 0 absolute_max a1 r1 ltac:(lia) Hwf ltac:(lia) Hrec [] O) as H.
      rewrite !app_nil_r, !Nat.add_0_r in H. apply H. exact HA. }
    unfold is_full. destruct (Nat.eqb_spec (num_keys r1) M) as [Hfull|Hnf].
    - pose proof (new_node_AInv ps a1 _ _ HA1) as HA2. destruct (new_node ps a1) as [a2 pr]. cbn [fst snd] in HA2.
      destruct (wf_split 0 absolute_max r1 pr Hwf1 Hfull) as (Hl & Hr & Hlk & Hent & Hhs & Hpl & Hpr).
      pose proof (split_pids r1 pr) as Hsp.
      destruct (split_tree M r1 pr) as [l0 r]. cbn [fst snd] in *.
      pose proof (new_node_AInv ps a2 _ _ HA2) as HA3. destruct (new_node ps a2) as [a3 pl]. cbn [fst snd] in HA3.
      rewrite tmax_set_pid. rewrite node_set_nil by lia.
      rewrite (wf_tmax _ _ _ _ Hr). rewrite node_set_snoc1 by (unfold absolute_max in *; lia).
      intros E. injection E as <-. split; cbn [root al pid_of]; [|congruence].
      eapply AInv_perm; [| |exact HA3].
      + intros q. specialize (Hsp q). pose proof (cnt_set_pid l0 pl q) as Hc.
        rewrite pids_node. unfold pidsk. cbn [flat_map snd]. rewrite app_nil_r.
        rewrite cnt_app in *. cbn [cnt] in *. rewrite cnt_app. rewrite Hpl in Hc. lia.
      + rewrite entries_node. unfold ents. cbn [flat_map snd]. rewrite entries_set_pid, app_nil_r, Hent. reflexivity.
    - intros E. injection E as <-. split; cbn [root al]; [exact HA1|congruence].
  Qed.

  Lemma tree_delete_below_wfa ps st ts st' : WFt st -> WFa ps st -> tree_delete_below st ts = Some st' -> WFa ps st'.
  Proof.
    intros [Hwf Hd] [HA Hp]. unfold tree_delete_below.
    match goal with |- context [tcompact ?f ts ?a (root st)] =>
      destruct (tcompact_spec ts f a (root st) _ _ _ ltac:(lia) Hwf) as (a' & t' & rem & Hc & _ & _ & _ & _ & Hp');
      pose proof (tcompact_ainv ps ts f a (root st) _ _ _ a' t' rem ltac:(lia) Hwf Hc [] O) as HA' end.
    rewrite Hc. intros E. injection E as <-. split; cbn [root al]; [|congruence].
    rewrite !app_nil_r, Nat.add_0_r in HA'. apply HA'.
    destruct HA as (Hpool & _ & H). split; [exact Hpool|]. split; [reflexivity|exact H].
  Qed.

  Lemma tree_iterate_wfa ps st fn : WFa ps st -> WFa ps (snd (tree_iterate st fn)).
  Proof.
    intros [HA Hp]. unfold tree_iterate.
    destruct (titer_shape fn (S (depth st)) (root st)) as [H1 H2].
    destruct (titer (S (depth st)) fn (root st)) as [vis r1] eqn:E. unfold WFa. cbv beta iota zeta. cbn [fst snd root al] in *.
    split; [rewrite H1, H2; exact HA|].
    destruct (root st), r1; cbn [pids pid_of] in *; congruence.
  Qed.

  Lemma init_root_wfa ps cur off st : 8 <= off -> off <= cur -> ps <= off - 8 ->
    init_root M ps (mkAlloc 1 [] 0 0 cur off) = Some st -> WFa ps st.
  Proof.
    intros H8 Hoc Hps Hi.
    destruct (init_root_spec ps (mkAlloc 1 [] 0 0 cur off)) as (st0 & p1 & p2 & Hi0 & Hr & _ & Hn1 & Hn2 & Hal).
    rewrite Hi in Hi0. injection Hi0 as <-.
    assert (HA0 : AInv ps (mkAlloc 1 [] 0 0 cur off) [] 0).
    { split; [split; [cbn; lia|]|cbn [leafKeys pagesFree freeList length offset curSz nextPage]; unfold data_len; cbn [offset]; repeat split; lia].
      intros p. cbn [app cnt nextPage freeList]. destruct (N.leb_spec 1 p); destruct (N.ltb_spec p 1); cbn [andb]; lia. }
    pose proof (new_node_AInv ps _ _ _ HA0) as HA1. rewrite Hn1 in HA1. cbn [fst snd] in HA1.
    pose proof (new_node_AInv ps _ _ _ HA1) as HA2. rewrite Hn2 in HA2. cbn [fst snd] in HA2.
    assert (Hp1 : p1 = 1).
    { apply (f_equal snd) in Hn1. unfold new_node in Hn1. cbn [freeList nextPage snd] in Hn1. congruence. }
    split; [|rewrite Hr; cbn; exact Hp1].
    rewrite Hr, Hal. cbn [init_tree pids entries flat_map snd app length].
    eapply (add_leaf_keys_AInv ps _ _ 0 1 1); [|reflexivity].
    eapply AInv_perm; [| |exact HA2]; [intros q; cbn [cnt]; lia|reflexivity].
  Qed.

  (* consequences read off the invariant *)
  Lemma cnt_in p l : In p l -> (1 <= cnt p l)%nat.
  Proof. induction l as [|x r IH]; cbn [In cnt]; [tauto|]. intros [->|H]; [rewrite N.eqb_refl; lia|apply IH in H; lia]. Qed.
  Lemma NoDup_cnt l : (forall p, (cnt p l <= 1)%nat) -> NoDup l.
  Proof.
    induction l as [|x r IH]; intros H; constructor.
    - intros Hin. apply cnt_in in Hin. specialize (H x). cbn [cnt] in H. rewrite N.eqb_refl in H. lia.
    - apply IH. intros p. specialize (H p). cbn [cnt] in H. lia.
  Qed.

  Lemma wfa_pages ps st : WFa ps st ->
    NoDup (pids (root st) ++ freeList (al st)) /\
    (forall p, In p (pids (root st) ++ freeList (al st)) <-> 1 <= p < nextPage (al st)) /\
    stat_leaf_keys st = Z.of_nat (length (entries (root st))) /\
    stat_pages_free st = Z.of_nat (length (freeList (al st))).
  Proof.
    intros [((H1 & Hc) & Hlk & Hpf & _) _]. split; [|split; [|split; assumption]].
    - apply NoDup_cnt. intros p. rewrite Hc. destruct ((1 <=? p) && (p <? nextPage (al st))); lia.
    - intros p. specialize (Hc p). split.
      + intros Hin. apply cnt_in in Hin. destruct (N.leb_spec 1 p); destruct (N.ltb_spec p (nextPage (al st))); cbn [andb] in Hc; lia.
      + intros Hr. destruct (N.leb_spec 1 p); destruct (N.ltb_spec p (nextPage (al st))); cbn [andb] in Hc; try lia.
        clear - Hc. induction (pids (root st) ++ freeList (al st)) as [|x r IH]; cbn [cnt] in Hc; [lia|].
        destruct (N.eqb_spec x p); [left; assumption|right; apply IH; lia].
  Qed.

  Lemma tree_reset_buf_wfa ps cur st : ps <= 1048568 -> 8 <= cur -> tree_reset_buf M ps cur = Some st -> WFa ps st.
  Proof.
    intros Hps Hc. unfold tree_reset_buf, alloc_offset. cbn [nextPage freeList leafKeys pagesFree curSz offset].
    apply init_root_wfa; [unfold min_size; lia|apply buf_grow_ge; exact Hc|unfold min_size; lia].
  Qed.

  Lemma tree_new_file_wfa ps st : ps <= 1048568 -> tree_new_file M ps = Some st -> WFa ps st.
  Proof. intros Hps. unfold tree_new_file. apply init_root_wfa; unfold min_size; lia. Qed.

  Lemma history_wf ps ops : ps <= 1048568 -> forall st, WF ps st -> Forall op_ok ops ->
    exists st', run ps ops st = Some st' /\ WF ps st'.
  Proof.
    intros Hps. induction ops as [|o ops IH]; intros st [Hwf Hwa] Hok.
    - exists st. split; [reflexivity|split; assumption].
    - inversion Hok as [|o' ops' Ho Hops]; subst. unfold run. cbn [fold_left].
      assert (Hstep : exists st1, step ps st o = Some st1 /\ WF ps st1).
      { destruct o as [k v|ts|fn|]; cbn [step op_ok] in *.
        - destruct (tree_set_spec ps st k v Hwf Ho) as (st1 & H1 & H2 & _). exists st1. split; [exact H1|].
          split; [exact H2|]. exact (tree_set_wfa ps st k v st1 Hwf Hwa Ho H1).
        - destruct (tree_delete_below_spec st ts Hwf) as (st1 & H1 & H2 & _). exists st1. split; [exact H1|].
          split; [exact H2|]. exact (tree_delete_below_wfa ps st ts st1 Hwf Hwa H1).
        - destruct (tree_iterate_spec st fn Hwf) as (H2 & _). eexists. split; [reflexivity|].
          split; [exact H2|]. apply tree_iterate_wfa. exact Hwa.
        - destruct (tree_reset_spec ps st) as (st1 & H1 & H2 & _). exists st1. split; [exact H1|].
          split; [exact H2|]. unfold tree_reset in H1. eapply tree_reset_buf_wfa; [exact Hps| |exact H1].
          destruct Hwa as [(_ & _ & _ & Ho8 & Hoc & _) _]. lia. }
      destruct Hstep as (st1 & Hs & Hwf1). rewrite Hs. apply (IH st1 Hwf1 Hops).
  Qed.

  Lemma new_mem_wf ps : ps <= 1048568 -> exists st, tree_new_mem M ps = Some st /\ WF ps st.
  Proof.
    intros Hps. destruct (tree_new_mem_spec ps) as (st & H1 & H2 & _). exists st. split; [exact H1|].
    split; [exact H2|]. eapply tree_reset_buf_wfa; [exact Hps| |exact H1]. unfold min_size. lia.
  Qed.
  Lemma new_file_wf ps : ps <= 1048568 -> exists st, tree_new_file M ps = Some st /\ WF ps st.
  Proof.
    intros Hps. destruct (tree_new_file_spec ps) as (st & H1 & H2 & _). exists st. split; [exact H1|].
    split; [exact H2|]. eapply tree_new_file_wfa; eauto.
  Qed.
End WF.
