(* C16: what is proved about Close + NewTreePersistent (Tree/Reopen.v).

   Proved in general (TreeProofs.v, re-exported in Properties/C16.v): the invariant [WF] that the reopen argument
   rests on holds after every history on a persistent tree -- the pages below nextPage are exactly the pages of the
   tree plus the free list, without duplicates (so the pages reinit does not reach from the root are exactly the
   free list, a simple chain whose head nobody points to), NumLeafKeys / NumPagesFree are exact recounts, and
   nextPage*pageSize <= len(data) <= file size - 8 (so the frontier scan with the repaired bound stays inside data).
   NOT proved in general: reinit (persist st) = st up to the buffer fields.  [reopen_agrees] below is the boolean
   form of that statement; it is evaluated on concrete histories at every split point. *)
From Ristretto Require Import Base.Word Tree.Node Tree.NodeProofs Tree.Tree Tree.TreeProofs Tree.Reopen.
Open Scope N_scope.

Fixpoint list_eqb {A} (eqb : A -> A -> bool) (a b : list A) : bool :=
  match a, b with
  | [], [] => true
  | x :: a', y :: b' => eqb x y && list_eqb eqb a' b'
  | _, _ => false
  end.
Definition pair_eqb (a b : N * N) : bool := (fst a =? fst b) && (snd a =? snd b).

(* the observable state: page ids of the tree in traversal order, leaf entries (hence the abstract map), nextPage
   (NumPages), free list (freePage and all later recycling), NumLeafKeys, NumPagesFree -- everything but the buffer *)
Definition same_obs (x y : tstate) : bool :=
  list_eqb N.eqb (pids (root x)) (pids (root y)) && list_eqb pair_eqb (entries (root x)) (entries (root y)) &&
  (nextPage (al x) =? nextPage (al y)) && list_eqb N.eqb (freeList (al x)) (freeList (al y)) &&
  Z.eqb (leafKeys (al x)) (leafKeys (al y)) && Z.eqb (pagesFree (al x)) (pagesFree (al y)).

(* run a; close+reopen; run b   versus   run (a ++ b): same observable state right after the reopen and at the end *)
Definition reopen_agrees (M : nat) (ps : N) (a b : list op) : bool :=
  match tree_new_file M ps with
  | None => false
  | Some st0 =>
    match run M ps a st0 with
    | None => false
    | Some s =>
      match tree_reopen M ps s with
      | None => false
      | Some s' =>
        same_obs s s' &&
        match run M ps b s, run M ps b s' with
        | Some x, Some y => same_obs x y
        | _, _ => false
        end
      end
    end
  end.

Definition all_splits (M : nat) (ps : N) (ops : list op) : bool :=
  forallb (fun i => reopen_agrees M ps (firstn i ops) (skipn i ops)) (seq 0 (S (length ops))).
