(* C16: Close + NewTreePersistent (Tree/Reopen.v) gives back the same tree, allocator state and statistics. *)
From Ristretto Require Import Base.Word Base.ListX Tree.Node Tree.NodeProofs Tree.Tree Tree.TreeProofs Tree.Reopen.
From Coq Require Import ZifyN ZifyNat ZifyBool Permutation.
Open Scope N_scope.

(* ---------- induction on trees ---------- *)
Lemma tree_ind2 (P : tree -> Prop) :
  (forall pid es, P (Leaf pid es)) ->
  (forall pid cs, Forall (fun e => P (snd e)) cs -> P (Node pid cs)) -> forall t, P t.
Proof.
  intros HL HN. fix IH 1. intros [pid es|pid cs]; [apply HL|]. apply HN.
  induction cs as [|[k c] r IHr]; constructor; [apply IH|exact IHr].
Qed.

Definition ptabk (cs : list (N * tree)) : list (N * pentry) := flat_map (fun e => ptab (snd e)) cs.
Lemma ptab_node pid cs : ptab (Node pid cs) = (pid, node_entry (Node pid cs)) :: ptabk cs.
Proof. reflexivity. Qed.

Lemma ptab_keys t : map fst (ptab t) = pids t.
Proof.
  induction t as [pid es|pid cs IH] using tree_ind2; [reflexivity|].
  rewrite ptab_node, pids_node. cbn [map fst]. f_equal.
  induction IH as [|[k c] r Hc Hr IHr]; [reflexivity|].
  unfold ptabk, pidsk in *. cbn [flat_map snd] in *. rewrite map_app, Hc, IHr. reflexivity.
Qed.

Definition nonblank (x : N * pentry) : Prop := snd x <> PBlank.
Lemma ptab_nonblank t : Forall nonblank (ptab t).
Proof.
  induction t as [pid es|pid cs IH] using tree_ind2; [repeat constructor; discriminate|].
  rewrite ptab_node. constructor; [discriminate|].
  induction IH as [|[k c] r Hc Hr IHr]; [constructor|].
  unfold ptabk in *. cbn [flat_map snd]. apply Forall_app. split; assumption.
Qed.
Lemma ftab_nonblank fl : Forall nonblank (ftab fl).
Proof. induction fl as [|h r IH]; constructor; [discriminate|exact IH]. Qed.
Lemma ftab_keys fl : map fst (ftab fl) = fl.
Proof. induction fl as [|h r IH]; cbn [ftab map fst]; [reflexivity|]. rewrite IH. reflexivity. Qed.

Lemma height_le_pids t : (height t <= length (pids t))%nat.
Proof.
  induction t as [pid es|pid cs IH] using tree_ind2; [cbn; lia|].
  rewrite height_node, pids_node. cbn [length]. apply le_n_S.
  induction IH as [|[k c] r Hc Hr IHr]; [cbn; lia|].
  rewrite hmax_cons, pidsk_cons, app_length. cbn [snd] in Hc. lia.
Qed.

(* ---------- association lists ---------- *)
Lemma assoc_in tab p e : NoDup (map fst tab) -> In (p, e) tab -> assoc p tab = e.
Proof.
  induction tab as [|x r IH]; intros Hnd Hin; [destruct Hin|].
  cbn [map] in Hnd. inversion Hnd as [|? ? Hx Hr]; subst. cbn [assoc].
  destruct Hin as [->|Hin].
  - cbn [fst snd]. rewrite N.eqb_refl. reflexivity.
  - destruct (N.eqb_spec (fst x) p) as [E|_]; [|apply IH; assumption].
    exfalso. apply Hx. rewrite E. change p with (fst (p, e)). apply in_map. exact Hin.
Qed.
Lemma assoc_notin tab p : ~ In p (map fst tab) -> assoc p tab = PBlank.
Proof.
  induction tab as [|x r IH]; intros H; [reflexivity|]. cbn [assoc map In] in *.
  destruct (N.eqb_spec (fst x) p); [tauto|]. apply IH. tauto.
Qed.
Lemma assoc_nonblank tab p : Forall nonblank tab -> In p (map fst tab) -> assoc p tab <> PBlank.
Proof.
  induction 1 as [|x r Hx Hr IH]; intros Hin; [destruct Hin|]. cbn [assoc map In] in *.
  destruct (N.eqb_spec (fst x) p); [exact Hx|]. apply IH. tauto.
Qed.

(* ---------- rebuild ---------- *)
Section Rebuild.
  Variable tab : list (N * pentry).
  Hypothesis Hnd : NoDup (map fst tab).
  Let pg := fun p => assoc p tab.

  Lemma rebuild_kids_ok (rec : N -> option tree) cs :
    Forall (fun e => rec (pid_of (snd e)) = Some (snd e) /\ pid_of (snd e) <> 0) cs ->
    rebuild_kids rec (map (fun e => (fst e, pid_of (snd e))) cs) = Some cs.
  Proof.
    induction 1 as [|[k c] r [Hc Hz] Hr IH]; [reflexivity|]. cbn [map rebuild_kids fst snd] in *.
    destruct (N.eqb_spec (pid_of c) 0); [congruence|]. rewrite Hc, IH. reflexivity.
  Qed.

  Lemma rebuild_ok f : forall t, (height t < f)%nat -> incl (ptab t) tab -> Forall (fun p => p <> 0) (pids t) ->
    rebuild f pg (pid_of t) = Some t.
  Proof.
    induction f as [|f IH]; intros t Hh Hincl Hnz; [lia|].
    assert (Hpg : pg (pid_of t) = node_entry t).
    { unfold pg. apply assoc_in; [exact Hnd|]. apply Hincl. destruct t; left; reflexivity. }
    cbn [rebuild]. rewrite Hpg. destruct t as [pid es|pid cs]; [reflexivity|].
    cbn [node_entry pid_of]. rewrite rebuild_kids_ok; [reflexivity|].
    rewrite height_node in Hh. rewrite ptab_node in Hincl. rewrite pids_node in Hnz.
    apply incl_cons_inv in Hincl. destruct Hincl as [_ Hincl]. inversion Hnz as [|? ? _ Hnz']; subst.
    clear Hpg Hnz. induction cs as [|[k c] r IHr]; [constructor|].
    rewrite hmax_cons in Hh. unfold ptabk in Hincl. cbn [flat_map snd] in Hincl.
    apply incl_app_inv in Hincl. destruct Hincl as [Hc Hr].
    rewrite pidsk_cons in Hnz'. apply Forall_app in Hnz'. destruct Hnz' as [Hzc Hzr].
    constructor; cbn [snd].
    - split; [apply IH; [lia|exact Hc|exact Hzc]|].
      destruct c; cbn [pids pid_of] in *; inversion Hzc; assumption.
    - apply IHr; [lia|exact Hr|exact Hzr].
  Qed.
End Rebuild.

(* ---------- frontier ---------- *)
Lemma frontier_ok ps pg dlen np : 0 < ps -> np * ps <= dlen ->
  (forall q, 1 <= q < np -> page_id_zero (pg q) = false) -> page_id_zero (pg np) = true ->
  forall f q, 1 <= q <= np -> (N.to_nat (np - q) < f)%nat -> frontier ps f pg dlen q = np.
Proof.
  intros Hps Hd Hnb Hb. induction f as [|f IH]; intros q Hq Hf; [lia|]. cbn [frontier].
  destruct (N.eq_dec q np) as [->|Hne].
  - rewrite Hb. destruct ((np + 1) * ps <=? dlen); reflexivity.
  - assert (Hle : (q + 1) * ps <= dlen).
    { eapply N.le_trans; [|exact Hd]. apply N.mul_le_mono_r. lia. }
    destruct (N.leb_spec ((q + 1) * ps) dlen); [|lia].
    rewrite Hnb by lia. apply IH; lia.
Qed.

(* ---------- the observable state, and the reopen statement in boolean form ---------- *)
Fixpoint list_eqb {A} (eqb : A -> A -> bool) (a b : list A) : bool :=
  match a, b with
  | [], [] => true
  | x :: a', y :: b' => eqb x y && list_eqb eqb a' b'
  | _, _ => false
  end.
Definition pair_eqb (a b : N * N) : bool := (fst a =? fst b) && (snd a =? snd b).

(* the observable state: page ids of the tree in traversal order, leaf entries (hence the abstract map), nextPage
   (NumPages), free list (freePage and all later recycling), NumLeafKeys, NumPagesFree -- everything but the buffer *)
Definition same_obs (x y : tstate) : bool :=
  list_eqb N.eqb (pids (root x)) (pids (root y)) && list_eqb pair_eqb (entries (root x)) (entries (root y)) &&
  (nextPage (al x) =? nextPage (al y)) && list_eqb N.eqb (freeList (al x)) (freeList (al y)) &&
  Z.eqb (leafKeys (al x)) (leafKeys (al y)) && Z.eqb (pagesFree (al x)) (pagesFree (al y)).

(* run a; close+reopen; run b   versus   run (a ++ b): same observable state right after the reopen and at the end *)
Definition reopen_agrees (M : nat) (ps : N) (a b : list op) : bool :=
  match tree_new_file M ps with
  | None => false
  | Some st0 =>
    match run M ps a st0 with
    | None => false
    | Some s =>
      match tree_reopen M ps s with
      | None => false
      | Some s' =>
        same_obs s s' &&
        match run M ps b s, run M ps b s' with
        | Some x, Some y => same_obs x y
        | _, _ => false
        end
      end
    end
  end.

Definition all_splits (M : nat) (ps : N) (ops : list op) : bool :=
  forallb (fun i => reopen_agrees M ps (firstn i ops) (skipn i ops)) (seq 0 (S (length ops))).

(* ---------- the free list as reinit finds it ---------- *)
Lemma memN_in p l : memN p l = true <-> In p l.
Proof.
  unfold memN. rewrite existsb_exists. split.
  - intros (x & Hx & E). apply N.eqb_eq in E. subst. exact Hx.
  - intros H. exists p. split; [exact H|apply N.eqb_refl].
Qed.
Lemma memN_false p l : memN p l = false <-> ~ In p l.
Proof. rewrite <- memN_in. destruct (memN p l); split; congruence. Qed.

Definition pages_upto (maxid : N) : list N := map (fun i => N.of_nat i) (seq 1 (N.to_nat maxid)).
Lemma pages_upto_in maxid p : In p (pages_upto maxid) <-> 1 <= p <= maxid.
Proof.
  unfold pages_upto. rewrite in_map_iff. split.
  - intros (i & <- & Hi). apply in_seq in Hi. lia.
  - intros H. exists (N.to_nat p). split; [lia|]. apply in_seq. lia.
Qed.
Lemma pages_upto_nodup maxid : NoDup (pages_upto maxid).
Proof.
  unfold pages_upto. apply FinFun.Injective_map_NoDup; [|apply seq_NoDup].
  intros x y H. lia.
Qed.
Lemma pages_upto_length maxid : length (pages_upto maxid) = N.to_nat maxid.
Proof. unfold pages_upto. rewrite map_length, seq_length. reflexivity. Qed.

Lemma ftab_in fl : forall pre p rest, fl = pre ++ p :: rest -> In (p, PFree (hd 0 rest)) (ftab fl).
Proof.
  induction fl as [|h r IH]; intros pre p rest E; [destruct pre; discriminate|].
  destruct pre as [|x pre]; cbn [app] in E; injection E as -> ->.
  - left. destruct rest; reflexivity.
  - right. eapply IH. reflexivity.
Qed.

Lemma chain_list pg : forall F, Forall (fun p => p <> 0) F ->
  (forall pre p rest, F = pre ++ p :: rest -> word0 (pg p) = hd 0 rest) ->
  chain (length F) pg (hd 0 F) = F.
Proof.
  induction F as [|h r IH]; intros Hnz Hnext; [reflexivity|].
  inversion Hnz as [|? ? Hh Hr]; subst. cbn [length chain hd].
  destruct (N.eqb_spec h 0); [congruence|]. f_equal.
  rewrite (Hnext [] h r eq_refl). apply IH; [exact Hr|].
  intros pre p rest E. apply (Hnext (h :: pre) p rest). rewrite E. reflexivity.
Qed.

Lemma nodup_head_not_later (pre : list N) p x rest :
  NoDup (pre ++ p :: x :: rest) -> hd 0 (pre ++ p :: x :: rest) <> x.
Proof.
  intros Hnd E. destruct pre as [|y pre]; cbn [app hd] in *.
  - subst p. inversion Hnd as [|? ? Hx _]; subst. apply Hx. left. reflexivity.
  - subst y. inversion Hnd as [|? ? Hx _]; subst. apply Hx. apply in_or_app. right. right. left. reflexivity.
Qed.

Section FreeList.
  Variable pg : N -> pentry.
  Variables F vis : list N.
  Variable maxid : N.
  Hypothesis HndF : NoDup F.
  Hypothesis HF0 : Forall (fun p => p <> 0) F.
  Hypothesis Hnext : forall pre p rest, F = pre ++ p :: rest -> word0 (pg p) = hd 0 rest.
  Hypothesis Hpart : forall p, 1 <= p <= maxid -> In p vis \/ In p F.
  Hypothesis Hdisj : forall p, In p vis -> ~ In p F.
  Hypothesis HFr : forall p, In p F -> 1 <= p <= maxid.

  Let nontail := filter (fun p => negb (memN p vis)) (pages_upto maxid).
  Let pointed := filter (fun n => negb (n =? 0)) (map (fun p => word0 (pg p)) nontail).
  Let heads := filter (fun p => negb (memN p pointed)) nontail.

  Lemma nontail_in p : In p nontail <-> In p F.
  Proof.
    unfold nontail. rewrite filter_In, pages_upto_in, Bool.negb_true_iff, memN_false. split.
    - intros [Hr Hn]. destruct (Hpart p Hr); tauto.
    - intros H. split; [apply HFr; exact H|]. intros Hv. exact (Hdisj p Hv H).
  Qed.

  Lemma nontail_len : length nontail = length F.
  Proof.
    apply Permutation_length. apply NoDup_Permutation; [|exact HndF|apply nontail_in].
    unfold nontail. apply NoDup_filter. apply pages_upto_nodup.
  Qed.

  Lemma pointed_in x : In x pointed <-> exists pre p rest, F = pre ++ p :: x :: rest.
  Proof.
    unfold pointed. rewrite filter_In, in_map_iff, Bool.negb_true_iff. split.
    - intros [(p & E & Hp) Hx]. apply nontail_in in Hp. apply N.eqb_neq in Hx.
      destruct (in_split _ _ Hp) as (pre & rest & EF). rewrite (Hnext pre p rest EF) in E.
      destruct rest as [|y rest]; cbn [hd] in E; [congruence|]. subst y. eauto.
    - intros (pre & p & rest & EF). split.
      + exists p. split; [rewrite (Hnext pre p (x :: rest) EF); reflexivity|].
        apply nontail_in. rewrite EF. apply in_or_app. right. left. reflexivity.
      + apply N.eqb_neq. rewrite Forall_forall in HF0. apply HF0. rewrite EF. apply in_or_app. right. right. left. reflexivity.
  Qed.

  Lemma pointed_range : forallb (fun p => p <=? maxid) pointed = true.
  Proof.
    apply forallb_forall. intros x Hx. apply pointed_in in Hx. destruct Hx as (pre & p & rest & EF).
    apply N.leb_le. apply HFr. rewrite EF. apply in_or_app. right. right. left. reflexivity.
  Qed.

  Lemma head_ok : match heads with h :: _ => h | [] => 0 end = hd 0 F.
  Proof.
    assert (HF : F = [] \/ exists h0 r, F = h0 :: r) by (clear; destruct F; eauto).
    destruct HF as [EF|(h0 & r & EF)].
    - rewrite EF at 1. assert (Hn : nontail = []).
      { destruct nontail as [|x l] eqn:E; [reflexivity|]. exfalso.
        assert (H : In x nontail) by (rewrite E; left; reflexivity). apply nontail_in in H. rewrite EF in H. exact H. }
      unfold heads. rewrite Hn. reflexivity.
    - assert (Hall : forall h, In h heads <-> h = h0).
      { intros h. unfold heads. rewrite filter_In, Bool.negb_true_iff, memN_false, nontail_in, pointed_in. split.
        - intros [Hin Hnp]. rewrite EF in Hin. destruct Hin as [->|Hin]; [reflexivity|]. exfalso. apply Hnp.
          destruct (in_split _ _ Hin) as (r1 & r2 & Er).
          destruct (@exists_last _ (h0 :: r1) ltac:(discriminate)) as (pre' & p & Ep).
          exists pre', p, r2. rewrite EF, Er. change (h0 :: r1 ++ h :: r2) with ((h0 :: r1) ++ h :: r2).
          rewrite Ep, <- app_assoc. reflexivity.
        - intros ->. split; [rewrite EF; left; reflexivity|].
          intros (pre & p & rest & E). apply (nodup_head_not_later pre p h0 rest).
          + rewrite <- E. exact HndF.
          + rewrite <- E, EF. reflexivity. }
      rewrite EF at 1. cbn [hd]. destruct heads as [|h l] eqn:E.
      + exfalso. assert (H : In h0 []) by (apply Hall; reflexivity). exact H.
      + apply Hall. left. reflexivity.
  Qed.
End FreeList.

Lemma NoDup_app_l {A} (l1 l2 : list A) : NoDup (l1 ++ l2) -> NoDup l1.
Proof.
  induction l1 as [|x l1 IH]; intros H; [constructor|]. cbn [app] in H. inversion H as [|? ? Hx Hr]; subst.
  constructor; [|apply IH; exact Hr]. intros Hin. apply Hx. apply in_or_app. left. exact Hin.
Qed.
Lemma NoDup_app_r {A} (l1 l2 : list A) : NoDup (l1 ++ l2) -> NoDup l2.
Proof. induction l1 as [|x l1 IH]; intros H; [exact H|]. cbn [app] in H. inversion H; subst. apply IH. assumption. Qed.

(* ---------- reinit (persist st) ---------- *)
Definition reopened (st : tstate) : tstate :=
  let a := al st in
  mkT (root st) (mkAlloc (nextPage a) (freeList a) (leafKeys a) (pagesFree a) (curSz a) (curSz a)) (height (root st)).

Theorem reinit_persist M (HM : (4 <= M)%nat) ps st : 0 < ps -> WFa ps st ->
  reinit ps (persist st) = Some (reopened st).
Proof.
  intros Hps Hwa.
  destruct (wfa_pages M HM ps st Hwa) as (Hnd & Hrange & Hlk & Hpf).
  destruct Hwa as [((Hnp1 & _) & _ & _ & Ho8 & Hoc & Hdl) Hroot].
  unfold stat_leaf_keys, stat_pages_free in *.
  set (a := al st) in *. set (F := freeList a) in *. set (np := nextPage a) in *.
  set (tab := ptab (root st) ++ ftab F).
  assert (Hkeys : map fst tab = pids (root st) ++ F)
    by (unfold tab; rewrite map_app, ptab_keys, ftab_keys; reflexivity).
  assert (Hndt : NoDup (map fst tab)) by (rewrite Hkeys; exact Hnd).
  assert (Hnbt : Forall nonblank tab) by (apply Forall_app; split; [apply ptab_nonblank|apply ftab_nonblank]).
  set (pg := fun p => assoc p tab).
  assert (Hpg : pf_page (persist st) = pg) by reflexivity.
  assert (Hsz : pf_size (persist st) = curSz a) by reflexivity.
  (* frontier *)
  assert (Hd : np * ps <= curSz a - 8) by (unfold data_len in Hdl; lia).
  assert (Hfr : frontier ps (S (N.to_nat ((curSz a - 8) / ps))) pg (curSz a - 8) 1 = np).
  { apply frontier_ok; auto.
    - intros q Hq. unfold pg. pose proof (assoc_nonblank tab q Hnbt) as H. rewrite Hkeys in H.
      specialize (H (proj2 (Hrange q) Hq)). destruct (assoc q tab); try reflexivity. congruence.
    - unfold pg. rewrite assoc_notin; [reflexivity|]. rewrite Hkeys. intros H. apply Hrange in H. lia.
    - lia.
    - assert (np <= (curSz a - 8) / ps) by (apply N.div_le_lower_bound; lia). lia. }
  (* traversal *)
  assert (Hnz : Forall (fun p => p <> 0) (pids (root st) ++ F)).
  { apply Forall_forall. intros p Hp. apply Hrange in Hp. lia. }
  assert (Hlenp : (length (pids (root st)) <= N.to_nat (np - 1))%nat).
  { rewrite <- pages_upto_length. apply NoDup_incl_length; [eapply NoDup_app_l; exact Hnd|].
    intros p Hp. apply pages_upto_in. assert (H : 1 <= p < np) by (apply Hrange; apply in_or_app; left; exact Hp). lia. }
  assert (Hrb : rebuild (S (N.to_nat (np - 1))) pg 1 = Some (root st)).
  { pose proof (rebuild_ok tab Hndt (S (N.to_nat (np - 1))) (root st)) as H. rewrite Hroot in H. apply H.
    - pose proof (height_le_pids (root st)). lia.
    - unfold tab. apply incl_appl. apply incl_refl.
    - apply Forall_app in Hnz. apply Hnz. }
  assert (Hvis : forallb (fun p => (1 <=? p) && (p <=? np - 1)) (pids (root st)) = true).
  { apply forallb_forall. intros p Hp. assert (H : 1 <= p < np) by (apply Hrange; apply in_or_app; left; exact Hp).
    apply andb_true_intro. split; [apply N.leb_le|apply N.leb_le]; lia. }
  (* free list *)
  assert (HndF : NoDup F) by (eapply NoDup_app_r; exact Hnd).
  assert (HF0 : Forall (fun p => p <> 0) F) by (apply Forall_app in Hnz; apply Hnz).
  assert (Hnext : forall pre p rest, F = pre ++ p :: rest -> word0 (pg p) = hd 0 rest).
  { intros pre p rest E. unfold pg. rewrite (assoc_in tab p (PFree (hd 0 rest)) Hndt); [reflexivity|].
    unfold tab. apply in_or_app. right. eapply ftab_in. exact E. }
  assert (Hpart : forall p, 1 <= p <= np - 1 -> In p (pids (root st)) \/ In p F).
  { intros p Hp. apply in_app_or. apply Hrange. lia. }
  assert (Hdisj : forall p, In p (pids (root st)) -> ~ In p F).
  { intros p H1 H2. apply in_split in H1. destruct H1 as (l1 & l2 & E). rewrite E in Hnd.
    rewrite <- app_assoc in Hnd. apply NoDup_remove_2 in Hnd. apply Hnd. apply in_or_app. right. apply in_or_app. right. exact H2. }
  assert (HFr : forall p, In p F -> 1 <= p <= np - 1).
  { intros p Hp. assert (H : 1 <= p < np) by (apply Hrange; apply in_or_app; right; exact Hp). lia. }
  pose proof (nontail_len F (pids (root st)) (np - 1) HndF Hpart Hdisj HFr) as Hlen.
  pose proof (pointed_range pg F (pids (root st)) (np - 1) HF0 Hnext Hpart Hdisj HFr) as Hpr.
  pose proof (head_ok pg F (pids (root st)) (np - 1) HndF HF0 Hnext Hpart Hdisj HFr) as Hhd.
  pose proof (chain_list pg F HF0 Hnext) as Hch.
  unfold reinit. rewrite Hpg, Hsz. cbv zeta. rewrite Hfr, Hrb, Hvis. cbn [negb].
  fold (pages_upto (np - 1)). rewrite Hpr. cbn [negb]. rewrite Hhd, Hlen, Hch.
  unfold reopened. fold a. fold F. fold np. rewrite Hlk, Hpf. reflexivity.
Qed.

Theorem tree_reopen_spec M (HM : (4 <= M)%nat) ps st : 0 < ps -> WFa ps st ->
  tree_reopen M ps st = Some (reopened st).
Proof.
  intros Hps Hwa. unfold tree_reopen.
  assert (H1 : page_id_zero (pf_page (persist st) 1) = false).
  { destruct (wfa_pages M HM ps st Hwa) as (_ & Hrange & _).
    destruct Hwa as [_ Hroot].
    assert (Hin : In 1 (map fst (ptab (root st) ++ ftab (freeList (al st))))).
    { rewrite map_app, ptab_keys. apply in_or_app. left. rewrite <- Hroot. destruct (root st); left; reflexivity. }
    pose proof (assoc_nonblank _ 1 (proj2 (Forall_app _ _ _) (conj (ptab_nonblank (root st)) (ftab_nonblank (freeList (al st))))) Hin) as Hnb.
    unfold persist, page_of. cbn [pf_page].
    destruct (assoc 1 (ptab (root st) ++ ftab (freeList (al st)))); try reflexivity. congruence. }
  rewrite H1. apply (reinit_persist M HM); assumption.
Qed.

Lemma reopened_wf M ps st : WF M ps st -> WF M ps (reopened st).
Proof.
  intros [[Hwf Hd] [((Hnp1 & Hc) & Hlk & Hpf & Ho8 & Hoc & Hdl) Hroot]]. unfold reopened.
  split; [split; cbn [root depth]; [exact Hwf|lia]|].
  split; cbn [root al]; [|exact Hroot].
  split; [split; [exact Hnp1|exact Hc]|]. cbn [leafKeys pagesFree freeList offset curSz nextPage].
  unfold data_len in *. cbn [offset]. repeat split; auto; lia.
Qed.

Lemma reopened_same st : same_obs st (reopened st) = true.
Proof.
  unfold same_obs, reopened. cbn [root al nextPage freeList leafKeys pagesFree].
  assert (HN : forall l, list_eqb N.eqb l l = true) by (induction l; cbn; [reflexivity|rewrite N.eqb_refl; assumption]).
  assert (HP : forall l, list_eqb pair_eqb l l = true).
  { induction l as [|x l IH]; cbn; [reflexivity|]. unfold pair_eqb at 1. rewrite !N.eqb_refl. exact IH. }
  rewrite !HN, HP, N.eqb_refl, !Z.eqb_refl. reflexivity.
Qed.

(* ---------- the operations do not depend on the fuel beyond the height, nor on the buffer fields ---------- *)
Definition aeq (a1 a2 : alloc) : Prop :=
  nextPage a1 = nextPage a2 /\ freeList a1 = freeList a2 /\ leafKeys a1 = leafKeys a2 /\ pagesFree a1 = pagesFree a2.
Definition sim (x y : tstate) : Prop := root x = root y /\ aeq (al x) (al y).

Lemma aeq_refl a : aeq a a.
Proof. repeat split. Qed.

Lemma new_node_aeq ps a1 a2 : aeq a1 a2 ->
  snd (new_node ps a1) = snd (new_node ps a2) /\ aeq (fst (new_node ps a1)) (fst (new_node ps a2)).
Proof.
  intros (H1 & H2 & H3 & H4). unfold new_node. rewrite H2. destruct (freeList a2) as [|p r].
  - cbn [fst snd]. split; [exact H1|].
    destruct (data_len a1 <? (nextPage a1 + 1) * ps); destruct (data_len a2 <? (nextPage a2 + 1) * ps);
      unfold alloc_offset, aeq; cbn [nextPage freeList leafKeys pagesFree]; repeat split; congruence.
  - cbn [fst snd]. split; [reflexivity|]. unfold aeq. cbn [nextPage freeList leafKeys pagesFree]. repeat split; congruence.
Qed.

Lemma add_leaf_keys_aeq a1 a2 d : aeq a1 a2 -> aeq (add_leaf_keys a1 d) (add_leaf_keys a2 d).
Proof. intros (H1 & H2 & H3 & H4). unfold add_leaf_keys, aeq. cbn. repeat split; congruence. Qed.
Lemma free_child_aeq a1 a2 c : aeq a1 a2 -> aeq (free_child a1 c) (free_child a2 c).
Proof. intros (H1 & H2 & H3 & H4). unfold free_child, aeq. cbn. repeat split; congruence. Qed.

Section Sim.
  Variable M : nat.
  Hypothesis HM : (4 <= M)%nat.
  Variable ps : N.

  Lemma tset_sim f1 : forall f2 a1 a2 t k v lo hi a1' t', aeq a1 a2 -> (height t < f1)%nat -> (height t < f2)%nat ->
    wf M (M - 1) lo hi t -> lo < k <= hi -> tset M ps f1 a1 t k v = Some (a1', t') ->
    exists a2', tset M ps f2 a2 t k v = Some (a2', t') /\ aeq a1' a2'.
  Proof.
    induction f1 as [|f1 IH]; intros f2 a1 a2 t k v lo hi a1' t' Ha Hh1 Hh2 Hwf Hk Hts; [lia|].
    destruct f2 as [|f2]; [lia|].
    inversion Hwf as [cap0 lo0 hi0 pid es Hs Hne Hmk Hlen|cap0 lo0 hi0 pid cs Hkids Hne Hlen]; subst.
    - cbn [tset] in *. destruct (node_set wid es k v) as [es' added]. injection Hts as <- <-.
      eexists. split; [reflexivity|apply add_leaf_keys_aeq; exact Ha].
    - destruct (wfk_route M HM _ _ _ k Hkids Hk) as (pre & ck & c & post & lo' & -> & Hlt & Hpre & Hc & Hkc & Hpost).
      rewrite height_node, hmax_app, hmax_cons in Hh1, Hh2.
      rewrite (tset_node_step M HM) in Hts by (auto; lia). rewrite (tset_node_step M HM) by (auto; lia).
      destruct (tset M ps f1 a1 c k v) as [[b1 c']|] eqn:E1; [|discriminate].
      destruct (IH f2 a1 a2 c k v lo' ck b1 c' Ha ltac:(lia) ltac:(lia) Hc Hkc E1) as (b2 & E2 & Hb).
      rewrite E2. destruct (is_full M c').
      + destruct (new_node_aeq ps b1 b2 Hb) as [Hp Hn].
        destruct (new_node ps b1) as [d1 p1]. destruct (new_node ps b2) as [d2 p2]. cbn [fst snd] in *. subst p2.
        destruct (split_tree M c' p1) as [l r]. cbv zeta in *. injection Hts as <- <-.
        eexists. split; [reflexivity|exact Hn].
      + injection Hts as <- <-. eexists. split; [reflexivity|exact Hb].
  Qed.

  Lemma tree_set_sim x y k v x' : sim x y -> WFt M x -> WFt M y -> valid_key k ->
    tree_set M ps x k v = Some x' -> exists y', tree_set M ps y k v = Some y' /\ sim x' y'.
  Proof.
    intros [Hr Ha] [Hwx Hdx] [Hwy Hdy] Hk. unfold valid_key in Hk. unfold tree_set.
    destruct ((k =? 0) || (k =? absolute_max + 1)); [discriminate|].
    destruct (tset M ps (S (depth x)) (al x) (root x) k v) as [[a1 r1]|] eqn:E1; [|discriminate].
    destruct (tset_sim (S (depth x)) (S (depth y)) (al x) (al y) (root x) k v 0 absolute_max a1 r1 Ha
                ltac:(lia) ltac:(rewrite Hr; lia) Hwx ltac:(lia) E1) as (a2 & E2 & Ha2).
    rewrite <- Hr, E2. destruct (is_full M r1).
    - destruct (new_node_aeq ps a1 a2 Ha2) as [Hp Hn].
      destruct (new_node ps a1) as [d1 p1]. destruct (new_node ps a2) as [d2 p2]. cbn [fst snd] in *. subst p2.
      destruct (split_tree M r1 p1) as [l0 r].
      destruct (new_node_aeq ps d1 d2 Hn) as [Hp' Hn'].
      destruct (new_node ps d1) as [e1 q1]. destruct (new_node ps d2) as [e2 q2]. cbn [fst snd] in *. subst q2.
      intros E. injection E as <-. eexists. split; [reflexivity|]. split; [reflexivity|exact Hn'].
    - intros E. injection E as <-. eexists. split; [reflexivity|]. split; [reflexivity|exact Ha2].
  Qed.

  (* DeleteBelow *)
  Lemma compact_children_sim (rec1 rec2 : alloc -> tree -> option (alloc * tree * nat)) cs :
    Forall (fun e => forall a1 a2 a1' c' rem, aeq a1 a2 -> rec1 a1 (snd e) = Some (a1', c', rem) ->
                     exists a2', rec2 a2 (snd e) = Some (a2', c', rem) /\ aeq a1' a2') cs ->
    forall a1 a2 a1' cs', aeq a1 a2 -> compact_children rec1 a1 cs = Some (a1', cs') ->
    exists a2', compact_children rec2 a2 cs = Some (a2', cs') /\ aeq a1' a2'.
  Proof.
    induction 1 as [|[ck c] rest Hc Hrest IH]; intros a1 a2 a1' cs' Ha Hcc.
    - cbn in *. injection Hcc as <- <-. eexists. split; [reflexivity|exact Ha].
    - cbn [compact_children snd] in *.
      destruct (rec1 a1 c) as [[[b1 c1] rem]|] eqn:E1; [|discriminate].
      destruct (Hc a1 a2 b1 c1 rem Ha E1) as (b2 & E2 & Hb). rewrite E2.
      destruct (Nat.eqb rem 0 && negb match rest with [] => true | _ :: _ => false end).
      + apply (IH _ _ _ _ (free_child_aeq b1 b2 c1 Hb) Hcc).
      + destruct (compact_children rec1 b1 rest) as [[d1 rest']|] eqn:E3; [|discriminate].
        destruct (IH _ _ _ _ Hb E3) as (d2 & E4 & Hd). rewrite E4. injection Hcc as <- <-.
        eexists. split; [reflexivity|exact Hd].
  Qed.

  Lemma hmax_in k c cs : In (k, c) cs -> (height c <= hmax cs)%nat.
  Proof.
    induction cs as [|[k' c'] r IH]; intros H; [destruct H|]. rewrite hmax_cons.
    destruct H as [E|H]; [injection E as -> ->; lia|apply IH in H; lia].
  Qed.

  Lemma tcompact_sim ts f1 : forall f2 a1 a2 t a1' t' rem, aeq a1 a2 -> (height t < f1)%nat -> (height t < f2)%nat ->
    tcompact f1 ts a1 t = Some (a1', t', rem) ->
    exists a2', tcompact f2 ts a2 t = Some (a2', t', rem) /\ aeq a1' a2'.
  Proof.
    induction f1 as [|f1 IH]; intros f2 a1 a2 t a1' t' rem Ha Hh1 Hh2 Htc; [lia|].
    destruct f2 as [|f2]; [lia|]. destruct t as [pid es|pid cs]; cbn [tcompact] in *.
    - destruct (node_compact es ts) as [es' rem']. injection Htc as <- <- <-.
      eexists. split; [reflexivity|apply add_leaf_keys_aeq; exact Ha].
    - rewrite height_node in Hh1, Hh2.
      destruct (compact_children (tcompact f1 ts) a1 cs) as [[b1 cs']|] eqn:E1; [|discriminate].
      destruct (compact_children_sim (tcompact f1 ts) (tcompact f2 ts) cs) with (a1 := a1) (a2 := a2) (a1' := b1) (cs' := cs')
        as (b2 & E2 & Hb); auto.
      + apply Forall_forall. intros [k c] Hin x1 x2 x1' c' r Hx Hr. cbn [snd] in *.
        pose proof (hmax_in k c cs Hin). eapply IH; eauto; lia.
      + rewrite E2. injection Htc as <- <- <-. eexists. split; [reflexivity|exact Hb].
  Qed.

  Lemma tree_delete_below_sim x y ts x' : sim x y -> WFt M x -> WFt M y ->
    tree_delete_below x ts = Some x' -> exists y', tree_delete_below y ts = Some y' /\ sim x' y'.
  Proof.
    intros [Hr (H1 & H2 & H3 & H4)] [_ Hdx] [_ Hdy]. unfold tree_delete_below.
    set (ax := mkAlloc (nextPage (al x)) (freeList (al x)) 0 (pagesFree (al x)) (curSz (al x)) (offset (al x))).
    set (ay := mkAlloc (nextPage (al y)) (freeList (al y)) 0 (pagesFree (al y)) (curSz (al y)) (offset (al y))).
    assert (Ha0 : aeq ax ay) by (unfold aeq, ax, ay; cbn; repeat split; congruence).
    destruct (tcompact (S (depth x)) ts ax (root x)) as [[[a1 r1] rem]|] eqn:E1; [|discriminate].
    destruct (tcompact_sim ts (S (depth x)) (S (depth y)) ax ay (root x) a1 r1 rem Ha0 ltac:(lia) ltac:(rewrite Hr; lia) E1)
      as (a2 & E2 & Ha2).
    rewrite <- Hr, E2. intros E. injection E as <-. eexists. split; [reflexivity|]. split; [reflexivity|exact Ha2].
  Qed.

  (* IterateKV *)
  Lemma titer_fuel fn f1 : forall f2 t, (height t < f1)%nat -> (height t < f2)%nat -> titer f1 fn t = titer f2 fn t.
  Proof.
    induction f1 as [|f1 IH]; intros f2 t H1 H2; [lia|]. destruct f2 as [|f2]; [lia|].
    destruct t as [pid es|pid cs]; cbn [titer]; [reflexivity|].
    rewrite height_node in H1, H2.
    assert (E : map (fun e => (fst e, titer f1 fn (snd e))) cs = map (fun e => (fst e, titer f2 fn (snd e))) cs).
    { apply map_ext_in. intros [k c] Hin. cbn [fst snd]. pose proof (hmax_in k c cs Hin). rewrite (IH f2 c); [reflexivity|lia|lia]. }
    rewrite E. reflexivity.
  Qed.

  Lemma tree_iterate_sim x y fn : sim x y -> WFt M x -> WFt M y ->
    fst (tree_iterate x fn) = fst (tree_iterate y fn) /\ sim (snd (tree_iterate x fn)) (snd (tree_iterate y fn)).
  Proof.
    intros [Hr Ha] [_ Hdx] [_ Hdy]. unfold tree_iterate.
    rewrite (titer_fuel fn (S (depth x)) (S (depth y)) (root x)) by (first [lia | rewrite Hr; lia]). rewrite Hr.
    destruct (titer (S (depth y)) fn (root y)) as [vis r1]. cbn [fst snd]. split; [reflexivity|]. split; [reflexivity|exact Ha].
  Qed.

  (* Reset *)
  Lemma init_root_sim a1 a2 x : aeq a1 a2 -> init_root M ps a1 = Some x ->
    exists y, init_root M ps a2 = Some y /\ sim x y.
  Proof.
    intros Ha Hx.
    destruct (init_root_spec M HM ps a1) as (x0 & p1 & p2 & Hi1 & Hr1 & _ & Hn1 & Hn1' & Hal1).
    destruct (init_root_spec M HM ps a2) as (y0 & q1 & q2 & Hi2 & Hr2 & _ & Hn2 & Hn2' & Hal2).
    rewrite Hx in Hi1. injection Hi1 as <-. exists y0. split; [exact Hi2|].
    destruct (new_node_aeq ps a1 a2 Ha) as [Hp Hn].
    destruct (new_node_aeq ps _ _ Hn) as [Hp' Hn'].
    rewrite Hn1 in Hp. rewrite Hn2 in Hp. cbn [snd] in Hp.
    rewrite Hn1' in Hp'. rewrite Hn2' in Hp'. cbn [snd] in Hp'.
    split; [rewrite Hr1, Hr2, Hp, Hp'; reflexivity|]. rewrite Hal1, Hal2. apply add_leaf_keys_aeq. exact Hn'.
  Qed.

  Lemma tree_reset_sim x y x' : tree_reset M ps x = Some x' -> exists y', tree_reset M ps y = Some y' /\ sim x' y'.
  Proof.
    unfold tree_reset, tree_reset_buf. apply init_root_sim.
    unfold alloc_offset, aeq. cbn. repeat split.
  Qed.

  Lemma step_sim x y o x' : sim x y -> WFt M x -> WFt M y -> op_ok o ->
    step M ps x o = Some x' -> exists y', step M ps y o = Some y' /\ sim x' y'.
  Proof.
    intros Hs Hx Hy Ho. destruct o as [k v|ts|fn|]; cbn [step op_ok] in *.
    - apply tree_set_sim; assumption.
    - apply tree_delete_below_sim; assumption.
    - intros E. injection E as <-. eexists. split; [reflexivity|]. apply tree_iterate_sim; assumption.
    - apply tree_reset_sim.
  Qed.

  Lemma step_wft x o x' : WFt M x -> op_ok o -> step M ps x o = Some x' -> WFt M x'.
  Proof.
    intros Hx Ho. destruct o as [k v|ts|fn|]; cbn [step op_ok] in *.
    - destruct (tree_set_spec M HM ps x k v Hx Ho) as (st1 & H1 & H2 & _). rewrite H1. intros E. injection E as <-. exact H2.
    - destruct (tree_delete_below_spec M HM x ts Hx) as (st1 & H1 & H2 & _). rewrite H1. intros E. injection E as <-. exact H2.
    - intros E. injection E as <-. apply (tree_iterate_spec M HM x fn Hx).
    - destruct (tree_reset_spec M HM ps x) as (st1 & H1 & H2 & _). rewrite H1. intros E. injection E as <-. exact H2.
  Qed.

  Lemma run_sim ops : forall x y x', sim x y -> WFt M x -> WFt M y -> Forall op_ok ops ->
    run M ps ops x = Some x' -> exists y', run M ps ops y = Some y' /\ sim x' y'.
  Proof.
    induction ops as [|o ops IH]; intros x y x' Hs Hx Hy Hok Hr.
    - cbn in Hr. injection Hr as <-. exists y. split; [reflexivity|exact Hs].
    - inversion Hok as [|o' ops' Ho Hops]; subst. unfold run in *. cbn [fold_left] in *.
      destruct (step M ps x o) as [x1|] eqn:E1; [|rewrite run_none in Hr; discriminate].
      destruct (step_sim x y o x1 Hs Hx Hy Ho E1) as (y1 & E2 & Hs1). rewrite E2.
      apply (IH x1 y1 x' Hs1 (step_wft x o x1 Hx Ho E1) (step_wft y o y1 Hy Ho E2) Hops Hr).
  Qed.

  Lemma sim_same_obs x y : sim x y -> same_obs x y = true.
  Proof.
    intros [Hr (H1 & H2 & H3 & H4)]. unfold same_obs. rewrite Hr, H1, H2, H3, H4.
    assert (HN : forall l, list_eqb N.eqb l l = true) by (induction l; cbn; [reflexivity|rewrite N.eqb_refl; assumption]).
    assert (HP : forall l, list_eqb pair_eqb l l = true).
    { induction l as [|e l IH]; cbn; [reflexivity|]. unfold pair_eqb at 1. rewrite !N.eqb_refl. exact IH. }
    rewrite !HN, HP, N.eqb_refl, !Z.eqb_refl. reflexivity.
  Qed.

  (* the full statement *)
  Theorem reopen_agrees_true a b : 0 < ps <= 1048568 -> Forall op_ok a -> Forall op_ok b ->
    reopen_agrees M ps a b = true.
  Proof.
    intros [Hps0 Hps] Ha Hb. unfold reopen_agrees.
    destruct (new_file_wf M HM ps Hps) as (st0 & H0 & Hwf0). rewrite H0.
    destruct (history_wf M HM ps a Hps st0 Hwf0 Ha) as (s & Hra & Hwf_s). rewrite Hra.
    rewrite (tree_reopen_spec M HM ps s Hps0 (proj2 Hwf_s)).
    pose proof (reopened_wf M ps s Hwf_s) as Hwf_s'.
    destruct (history_wf M HM ps b Hps s Hwf_s Hb) as (x & Hrx & Hwf_x). rewrite Hrx.
    assert (Hsim : sim s (reopened s)) by (split; [reflexivity|unfold reopened, aeq; cbn; repeat split]).
    destruct (run_sim b s (reopened s) x Hsim (proj1 Hwf_s) (proj1 Hwf_s') Hb Hrx) as (y & Hry & Hxy).
    rewrite Hry. rewrite reopened_same, (sim_same_obs x y Hxy). reflexivity.
  Qed.
End Sim.
