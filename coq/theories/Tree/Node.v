(* Model of one page of z/btree.go (type node).  Definitions only.

   A page of pageSize bytes is 2*(maxKeys+1) uint64 words: key i at word 2i, value i at word 2i+1 for i < maxKeys,
   then the page id and the word holding the leaf bit and numKeys.  Every operation of the code keeps the words
   beyond entry numKeys-1 zero (newNode/split/compact/root split zero them explicitly), so a page is modelled as the
   list of its numKeys (key, value) entries; reading key(i)/val(i) for i >= numKeys yields 0.  (The one exception,
   key(maxKeys) = the page-id word, is read only by node.set on a full node whose keys are all < k; the code asserts
   that this cannot happen and it cannot on a well-formed tree.)

   The value slot of a leaf entry is the stored uint64; the value slot of an internal entry is the child's page id.
   The node functions are therefore polymorphic in the value type V, with [word : V -> N] giving the uint64 in the
   slot (only node.search looks at the raw words, and it ignores the odd positions). *)
From Ristretto Require Import Base.Word Simd.X86 Simd.SearchGo.
Open Scope N_scope.

Section NodeV.
  Context {V : Type}.
  Variable word : V -> N.

  (* the words n[:2*numKeys] *)
  Definition flat (es : list (N * V)) : list N := flat_map (fun e => [fst e; word (snd e)]) es.

  (* node.search: index of the first key >= k, numKeys if there is none.  For numKeys < 4 the code loops, otherwise
     it calls simd.Search(n[:2N], k); both are first_ge (Properties/C20.v proves it of the real kernel). *)
  Definition node_search (es : list (N * V)) (k : N) : nat := N.to_nat (first_ge (flat es) k).

  (* n.key(i); 0 beyond numKeys (zero padding) *)
  Definition key_at (es : list (N * V)) (i : nat) : N :=
    match nth_error es i with Some e => fst e | None => 0 end.

  (* n.maxKey(): idx := numKeys; if idx > 0 { idx-- }; key(idx) *)
  Definition max_key (es : list (N * V)) : N := key_at es (length es - 1).

  Definition insert_at (es : list (N * V)) (i : nat) (e : N * V) : list (N * V) :=
    firstn i es ++ e :: skipn i es.

  (* node.set(k, v) -> (node, numAdded).
       ki == k           : overwrite the value in place
       ki > k            : moveRight(idx), numKeys++, write (k,v) at idx
       ki == 0 (idx = N) : numKeys++, write (k,v) at idx
     (ki < k with ki != 0 is the code's panic("shouldn't reach here"); search never returns such an index.) *)
  Definition node_set (es : list (N * V)) (k : N) (v : V) : list (N * V) * Z :=
    let idx := node_search es k in
    let ki := key_at es idx in
    if ki =? k then (upd es idx (k, v), 0%Z) else (insert_at es idx (k, v), 1%Z).
End NodeV.

(* ---- leaf-only operations (V = N, word = id) ---- *)
Definition wid (x : N) : N := x.

(* node.get *)
Definition node_get (es : list (N * N)) (k : N) : N :=
  let idx := node_search wid es k in
  if Nat.eqb idx (length es) then 0
  else match nth_error es idx with
       | Some (ki, v) => if ki =? k then v else 0
       | None => 0
       end.

(* node.compact(lo) -> (node, return value).  Entries with value < lo are dropped, except that an entry whose key
   is not below the node's max key stays with its value set to 0 (placeholder).  Returns 0 iff the only entry left
   is such a placeholder, else the number of entries left. *)
Definition compact_entry (lo mk : N) (e : N * N) : list (N * N) :=
  if snd e <? lo then (if fst e <? mk then [] else [(fst e, 0)]) else [e].
Definition node_compact (es : list (N * N)) (lo : N) : list (N * N) * nat :=
  let mk := max_key es in
  let es' := flat_map (compact_entry lo mk) es in
  let left := length es' in
  let rem := match es' with
             | [(k0, v0)] => if (k0 =? mk) && (v0 <? lo) then O else left
             | _ => left
             end in
  (es', rem).

(* the leaf part of Tree.IterateKV: entries with a zero value are skipped; a non-zero result of f replaces the value *)
Definition iter_visit (es : list (N * N)) : list (N * N) := filter (fun e => negb (snd e =? 0)) es.
Definition iter_entry (f : N -> N -> N) (e : N * N) : N * N :=
  if snd e =? 0 then e else let nv := f (fst e) (snd e) in if nv =? 0 then e else (fst e, nv).
