import sys; sys.path.insert(0,'/tmp/vw_alloc')
from lib import core
cases = core.parse_cases(sys.argv[1])
if '--build' in sys.argv:
    core.assemble_project(); print(core.build_coq()[0], core.build_runner()[0]); r=core.build_harness('z'); print(r[0], r[1][-2000:] if not r[0] else '')
impl, model, problems = core.run_both('z', cases, 'scratch')
print(problems)
for c in cases:
    a=impl.get(c.id,[]); b=model.get(c.id,[])
    for i,op in enumerate(c.ops):
        x=a[i] if i<len(a) else '<none>'; y=b[i] if i<len(b) else '<none>'
        print('%-3s %-28s | %-40s | %s' % ('' if x==y else '!!', op, x[:60], y[:60]))
