(* component: ring (ring.go + defaultPolicy.Push / processItems) *)
open Model
open Runner

let get_opt = function Some x -> x | None -> failwith "diverges"

let () = register "ring" (fun args ->
  match args with
  | capa :: nc :: s0 :: s1 :: s2 :: s3 :: rest ->
      (* door size / locs / cap(itemsCh) are what the implementation reported (annotate); absent before that *)
      let dsize, dlocs, chcap = match rest with
        | [ a; b; c ] -> (a, b, int_of_string c)
        | _ -> ("64", "1", 3) in
      let door = get_opt (bloom_new (n_of_string dsize) (n_of_string dlocs)) in
      let t0 = tl_new (z_of_string nc) (List.map n_of_string [ s0; s1; s2; s3 ]) door in
      let r = ref (ring_new (z_of_string capa) (nat_of_int chcap)) in
      let tail () =
        if !r.r_closed then Printf.sprintf "k=%s d=%s ch=-" (string_of_n !r.r_kept) (string_of_n !r.r_dropped)
        else Printf.sprintf "k=%s d=%s ch=%d" (string_of_n !r.r_kept) (string_of_n !r.r_dropped)
          (List.length !r.r_ch) in
      let push i item =
        let (r', o) = ring_step !r (RPush (nat_of_int i, n_of_string item)) in
        r := r';
        match o with
        | OStored len -> Printf.sprintf "stored %d %s arr=same" (int_of_nat len) (tail ())
        | ODrain (keys, v) ->
            (* ring.go: a kept batch leaves with its array, the stripe continues on a fresh one (RingOwn.v: OKept);
               a refused batch is overwritten in place (ORefused) *)
            Printf.sprintf "drain %s %d %s %s"
              (match v with VKept -> "kept" | VDropped -> "dropped" | VClosed -> "closed")
              (List.length keys) (tail ())
              (match v with VKept -> "arr=fresh" | _ -> "arr=same")
        | _ -> "badout" in
      (fun op ->
        match op with
        | [ "door" ] -> Printf.sprintf "%s %s %d" dsize dlocs chcap
        | [ "push"; i; item ] -> push (int_of_string i) item
        | [ "bpush"; item; i ] -> Printf.sprintf "s%s %s" i (push (int_of_string i) item)
        | [ "recv" ] ->
            let (r', o) = ring_step !r RRecv in
            r := r';
            (match o with
             | OBatch keys -> "batch " ^ String.concat " " (List.map string_of_n keys)
             | _ -> "none")
        | [ "gc"; i ] -> r := fst (ring_step !r (RGc (nat_of_int (int_of_string i)))); "ok"
        | [ "close" ] -> r := fst (ring_step !r RClose); "ok"
        | [ "est"; k ] -> string_of_n (tl_estimate (ring_tl t0 !r) (n_of_string k))
        | _ -> "badop")
  | _ -> failwith "ring header")
