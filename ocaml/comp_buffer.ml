(* component: buffer  (z.Buffer, C11).  header: <calloc|mmap> <capacity> <autoMmapAfter> <maxSz> *)
open Model
open Runner

let fnv64 (l : n list) : string =
  let h = ref 0xcbf29ce484222325L in
  List.iter (fun x ->
    h := Int64.logxor !h (int64_of_n x);
    h := Int64.mul !h 0x100000001b3L) l;
  Printf.sprintf "%Lu" !h

let st (b : buffer) =
  Printf.sprintf "%s %s %s %s" (string_of_n (len_no_padding b)) (string_of_n b.b_curSz)
    (match b.b_mode with Calloc -> "c" | Mmap -> "m") (if is_empty b then "t" else "f")

let cmp_of = function
  | "lex" -> lex_lt | "rlex" -> rlex_lt | "len" -> len_lt | "first" -> first_lt
  | "true" -> always_true | "false" -> always_false | "cyc" -> cyclic_lt
  | _ -> failwith "cmp"

let join_hex sep l = if l = [] then "none" else String.concat sep (List.map hex_of_bytes l)

(* component: growcap -- capacity arithmetic of Grow alone (sizes around the 1 GiB clamp).  op: gb <cur> <off> <n> *)
let () = register "growcap" (fun _ ->
  (fun op ->
    match op with
    | [ "gb"; cur; off; n ] ->
        let cur = n_of_string cur and off = n_of_string off and n = n_of_string n in
        let c' = if N.ltb (N.add off n) cur then cur else N.add cur (grow_by cur n) in
        Printf.sprintf "%s %s" (string_of_n c') (string_of_n c')
    | _ -> "ok"))

let () = register "buffer" (fun args ->
  match args with
  | [ mode; cap; auto; maxsz ] ->
      let b0 = (match mode with
                | "calloc" -> new_buffer (n_of_string cap)
                | "mmap" -> new_buffer_tmp (n_of_string cap)
                | _ -> failwith "mode") in
      let b0 = if auto = "0" then b0 else
          (match with_auto_mmap b0 (n_of_string auto) with Some x -> x | None -> failwith "automap") in
      let b0 = if maxsz = "0" then b0 else with_max_size b0 (n_of_string maxsz) in
      let b = ref b0 in
      let alloc3 r fill n =
        (match r with
         | None -> "panic maxsize"
         | Some ((off, stale), nb) ->
             b := fill_tail nb n (bytes_of_hex fill);
             Printf.sprintf "%s %s %s" (string_of_n off) (hex_of_bytes stale) (st !b)) in
      let upd r ok = (match r with None -> "panic maxsize" | Some nb -> b := nb; ok ^ " " ^ st !b) in
      let sorted r = (match r with
                      | SortOk nb -> b := nb; "ok " ^ st !b
                      | SortPanicStartZero -> "panic start can never be zero"
                      | SortFatal -> "fatal") in
      (fun op ->
        match op with
        | [ "w"; h ] -> let p = bytes_of_hex h in upd (write !b p) (string_of_int (List.length p))
        | [ "ws"; h ] -> upd (write_slice !b (bytes_of_hex h)) "ok"
        | [ "al"; n; fill ] -> let n = n_of_string n in alloc3 (allocate !b n) fill n
        | [ "ao"; n; fill ] ->
            let n = n_of_string n in
            (* AllocateOffset returns only the offset; the harness reads buf[off:off+n] white-box *)
            alloc3 (allocate !b n) fill n
        | [ "sa"; n; fill ] -> let n = n_of_string n in alloc3 (slice_allocate !b n) fill n
        | [ "grow"; n ] -> upd (grow !b (n_of_string n)) "ok"
        | [ "reset" ] -> b := reset !b; "ok " ^ st !b
        | [ "bytes" ] -> let l = bytes !b in Printf.sprintf "%d %s" (List.length l) (fnv64 l)
        | [ "hex" ] -> hex_of_bytes (bytes !b)
        | [ "lwp" ] -> string_of_n (len_with_padding !b)
        | [ "offs" ] ->
            (match slice_offsets !b with
             | None -> "panic model"
             | Some l -> String.concat " " (List.map string_of_n l))
        | [ "sl"; off ] ->
            (match slice !b (n_of_string off) with
             | None -> "panic model"
             | Some (s, nx) ->
                 hex_of_bytes s ^ " " ^ (match nx with None -> "-1" | Some x -> string_of_n x))
        | [ "iter" ] ->
            (match slice_iterate !b with None -> "panic model" | Some l -> join_hex "," l)
        | [ "slices" ] ->
            (match slice_offsets !b with
             | None -> "panic model"
             | Some _ ->
                 (match slice_all !b with None -> "panic model" | Some l -> join_hex "," l))
        | [ "sort"; c ] -> sorted (sort_slice_exec (cmp_of c) !b)
        | [ "sortb"; s; e; c ] ->
            sorted (sort_slice_between_exec (cmp_of c) !b (n_of_string s) (n_of_string e))
        | _ -> "badop")
  | _ -> failwith "buffer header")
