(* Line-oriented driver around the extracted Coq model (Model = coq/model.ml).
   usage: runner CASEFILE > OUT
   Case file:   case <id> <component> <header args...>
                <op> <args...>          (one per line)
                end
   Output:      case <id> / one line per op / end   -- same shape as the Go harnesses print. *)
open Model

(* ---------- conversions between decimal text and the extracted number types ---------- *)
let rec pos_of_int64 (x : int64) : positive =
  (* x > 0 as unsigned *)
  if Int64.equal x 1L then XH
  else
    let half = Int64.shift_right_logical x 1 in
    if Int64.equal (Int64.logand x 1L) 1L then XI (pos_of_int64 half) else XO (pos_of_int64 half)

let n_of_int64 (x : int64) : n = if Int64.equal x 0L then N0 else Npos (pos_of_int64 x)
let n_of_string (s : string) : n = n_of_int64 (Int64.of_string ("0u" ^ s))
let z_of_string (s : string) : z =
  if String.length s > 0 && s.[0] = '-' then
    (match n_of_string (String.sub s 1 (String.length s - 1)) with N0 -> Z0 | Npos p -> Zneg p)
  else (match n_of_string s with N0 -> Z0 | Npos p -> Zpos p)

let rec int64_of_pos (p : positive) : int64 =
  match p with
  | XH -> 1L
  | XO q -> Int64.shift_left (int64_of_pos q) 1
  | XI q -> Int64.logor (Int64.shift_left (int64_of_pos q) 1) 1L
let int64_of_n = function N0 -> 0L | Npos p -> int64_of_pos p
let string_of_n (x : n) : string = Printf.sprintf "%Lu" (int64_of_n x)
let string_of_z = function
  | Z0 -> "0" | Zpos p -> Printf.sprintf "%Lu" (int64_of_pos p)
  | Zneg p -> "-" ^ Printf.sprintf "%Lu" (int64_of_pos p)
let rec nat_of_int (i : int) : nat = if i <= 0 then O else S (nat_of_int (i - 1))
let rec int_of_nat = function O -> 0 | S n -> 1 + int_of_nat n
let int_of_n x = Int64.to_int (int64_of_n x)
let n_of_int i = n_of_int64 (Int64.of_int i)
let sb b = if b then "true" else "false"

let hex_of_bytes (l : n list) : string =
  let b = Buffer.create 64 in
  List.iter (fun x -> Buffer.add_string b (Printf.sprintf "%02x" (int_of_n x))) l;
  if Buffer.length b = 0 then "-" else Buffer.contents b
let bytes_of_hex (s : string) : n list =
  if s = "-" then [] else
  List.init (String.length s / 2) (fun i -> n_of_int (int_of_string ("0x" ^ String.sub s (2 * i) 2)))

let split s = List.filter (fun x -> x <> "") (String.split_on_char ' ' (String.trim s))

(* A component: header args -> (op line -> output line) *)
let components : (string, string list -> (string list -> string)) Hashtbl.t = Hashtbl.create 16
let register name f = Hashtbl.replace components name f

let main () =
  let ic = open_in Sys.argv.(1) in
  let cur : (string list -> string) option ref = ref None in
  (try
     while true do
       let line = input_line ic in
       match split line with
       | [] -> ()
       | "case" :: id :: comp :: args ->
           print_string ("case " ^ id ^ "\n");
           (match Hashtbl.find_opt components comp with
            | Some f -> (try cur := Some (f args) with e ->
                           print_string ("initerror " ^ Printexc.to_string e ^ "\n");
                           cur := Some (fun _ -> "skipped"))
            | None -> cur := Some (fun _ -> "unknown-component"))
       | [ "end" ] -> print_string "end\n"; cur := None
       | op -> (match !cur with
                | Some f ->
                    let out = (try f op with
                               | Stack_overflow -> "error stack"
                               | e -> "error " ^ Printexc.to_string e) in
                    print_string (out ^ "\n")
                | None -> ())
     done
   with End_of_file -> ());
  close_in ic
