let () = Runner.main ()
