(* components: policy (deterministic populations: model decides), policybig (the observed outcome of Add is
   fed back and validated against necessary conditions; accounting is still compared) *)
open Model
open Runner

let join l = if l = [] then "-" else String.concat "," l

let mk forced = (fun args ->
  match args with
  | [ maxcost; mon ] ->
      let p = ref (pol_new (z_of_string maxcost)) in
      let m = ref (m_zero (mon = "1")) in
      let est : (n, z) Hashtbl.t = Hashtbl.create 16 in
      let estf k = try Hashtbl.find est k with Not_found -> Z0 in
      (fun op ->
        match op with
        | [ "est"; k; v ] -> Hashtbl.replace est (n_of_string k) (z_of_string v); "ok " ^ v
        | [ "estcheck"; k ] -> string_of_z (estf (n_of_string k))
        | [ "age"; kvs ] ->
            (* the sketch aged: the estimates are whatever count-min + doorkeeper now say (observed, fed back) *)
            Hashtbl.reset est;
            if kvs <> "-" then
              List.iter (fun s -> match String.split_on_char ':' s with
                                  | [ a; b ] -> Hashtbl.replace est (n_of_string a) (z_of_string b)
                                  | _ -> failwith "age") (String.split_on_char ',' kvs);
            "ok " ^ kvs
        | "add" :: k :: cost :: rest when not forced || rest = [] ->
            (match pol_add [] estf !p !m (n_of_string k) (z_of_string cost) with
             | AddOk (vs, added, p', m', _, _) ->
                 p := p'; m := m';
                 Printf.sprintf "%s %s" (sb added)
                   (join (List.map (fun (k, c) -> string_of_n k ^ ":" ^ string_of_z c) vs))
             | AddOutOfFuel -> "outoffuel")
        | [ "add"; k; cost; added; vs ] ->
            (* forced outcome: apply it, checking the necessary conditions of C09 on the way *)
            let key = n_of_string k and cost = z_of_string cost in
            let victims = if vs = "-" then [] else
              List.map (fun s -> match String.split_on_char ':' s with
                                 | [ a; b ] -> (n_of_string a, z_of_string b) | _ -> failwith "victim")
                (String.split_on_char ',' vs) in
            let bad = ref [] in
            let seen = ref [] in
            List.iter (fun (vk, vc) ->
              (* a key can be "evicted" twice in one call (duplicate in the sample); the second time it is gone *)
              (if List.mem vk !seen then () else
               match pol_cost !p vk with
               | c when c = vc -> ()
               | _ -> bad := "victim-not-accounted" :: !bad);
              seen := vk :: !seen;
              (match Z.ltb (estf key) (estf vk) with true -> bad := "victim-hotter-than-newcomer" :: !bad | false -> ());
              let (p', m') = pol_del !p !m vk in p := p'; m := m') victims;
            if added = "true" then begin
              (match Z.ltb (pol_cap !p) cost with true -> bad := "admitted-without-room" :: !bad | false -> ());
              p := pol_insert !p key cost; m := m_add !m MCostAdd (z2u64 cost)
            end else begin
              (* refused: either too big, already accounted (cost overwritten), or rejected by admission *)
              if Z.ltb !p.p_max cost then ()
              else if pol_has !p key then (let (p', m') = pol_update !p !m key cost in p := p'; m := m')
              else m := m_add !m MRejectSets (n_of_int 1)
            end;
            if !bad = [] then added ^ " " ^ vs else "invalid " ^ String.concat "," !bad
        | [ "upd"; k; cost ] ->
            let (p', m') = pol_update !p !m (n_of_string k) (z_of_string cost) in p := p'; m := m'; "ok"
        | [ "del"; k ] -> let (p', m') = pol_del !p !m (n_of_string k) in p := p'; m := m'; "ok"
        | [ "cap" ] -> string_of_z (pol_cap !p)
        | [ "cost"; k ] -> string_of_z (pol_cost !p (n_of_string k))
        | [ "has"; k ] -> sb (pol_has !p (n_of_string k))
        | [ "updmax"; z ] -> p := pol_set_max !p (z_of_string z); "ok"
        | [ "clear" ] -> p := pol_clear !p; Hashtbl.reset est; "ok"
        | [ "costs" ] ->
            let l = List.sort compare (List.map (fun (k, c) -> string_of_n k ^ ":" ^ string_of_z c) (dump_pcosts !p)) in
            Printf.sprintf "%s used=%s max=%s" (join l) (string_of_z !p.p_used) (string_of_z !p.p_max)
        | [ "metrics" ] ->
            if not !m.m_on then "nil" else
            String.concat " " (List.map (fun t -> string_of_n (m_read !m t))
              [ MKeyUpdate; MKeyEvict; MCostAdd; MCostEvict; MRejectSets ])
        | _ -> "badop")
  | _ -> failwith "policy header")

let () = register "policy" (mk false)
let () = register "policybig" (mk true)
