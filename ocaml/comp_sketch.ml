(* components: rowbyte, n2p, sketch, tlfu, bloom *)
open Model
open Runner

let dump_rows (s : sketch) = String.concat "|" (List.map hex_of_bytes s.sk_rows)

let () = register "rowbyte" (fun _ -> fun op ->
  match op with
  | [ b; n ] ->
      let b = n_of_string b and n = n_of_string n in
      let r = [ b ] in
      Printf.sprintf "%s %s %s" (string_of_n (row_get r n))
        (hex_of_bytes (row_inc r n)) (hex_of_bytes (row_reset r))
  | _ -> "badop")

let () = register "n2p" (fun _ -> fun op ->
  match op with
  | [ x ] -> string_of_z (next2power (z_of_string x))
  | _ -> "badop")

let () = register "sketch" (fun args ->
  match args with
  | nc :: seeds ->
      let s = ref (sketch_new (z_of_string nc) (List.map n_of_string seeds)) in
      (fun op ->
        match op with
        | [ "inc"; h ] -> s := sk_increment !s (n_of_string h); "ok"
        | [ "est"; h ] -> string_of_n (sk_estimate !s (n_of_string h))
        | [ "reset" ] -> s := sk_reset !s; "ok"
        | [ "clear" ] -> s := sk_clear !s; "ok"
        | [ "dump" ] -> dump_rows !s
        | _ -> "badop")
  | _ -> failwith "sketch header")

let dump_bloom (b : bloom) =
  Printf.sprintf "%s %s %s %s %s" (string_of_n b.bl_sizeExp) (string_of_n b.bl_size)
    (string_of_n b.bl_locs) (string_of_n b.bl_shift) (hex_of_bytes b.bl_bits)

let get_opt = function Some x -> x | None -> failwith "diverges"

let bloom_ops (b : bloom ref) =
      (fun op ->
        match op with
        | [ "add"; h ] -> b := bl_add !b (n_of_string h); "ok"
        | [ "has"; h ] -> sb (bl_has !b (n_of_string h))
        | [ "aih"; h ] -> let (r, nb) = bl_add_if_not_has !b (n_of_string h) in b := nb; sb r
        | [ "clear" ] -> b := bl_clear !b; "ok"
        | [ "dump" ] -> dump_bloom !b
        | [ "json" ] ->
            let (bs, locs) = bl_marshal !b in
            b := get_opt (bl_unmarshal bs locs); dump_bloom !b
        | _ -> "badop")

let () = register "bloom" (fun args ->
  match args with
  | [ entries; locs ] -> bloom_ops (ref (get_opt (bloom_new (n_of_string entries) (n_of_string locs))))
  | _ -> failwith "bloom header")
let () = register "bloomfp" (fun args ->
  match args with
  | [ _; _; _; size; locs ] -> bloom_ops (ref (get_opt (bloom_new (n_of_string size) (n_of_string locs))))
  | _ -> failwith "bloomfp header")

let () = register "getsize" (fun _ -> fun op ->
  match op with
  | [ x ] -> (match get_size (n_of_string x) with
              | Some (s, e) -> string_of_n s ^ " " ^ string_of_n e
              | None -> "diverges")
  | _ -> "badop")

let () = register "tlfu" (fun args ->
  match args with
  | [ nc; s0; s1; s2; s3; dentries; dlocs ] ->
      let door = get_opt (bloom_new (n_of_string dentries) (n_of_string dlocs)) in
      let t = ref (tl_new (z_of_string nc) (List.map n_of_string [ s0; s1; s2; s3 ]) door) in
      (fun op ->
        match op with
        | [ "inc"; k ] -> t := tl_increment !t (n_of_string k); "ok"
        | "push" :: ks -> t := tl_push !t (List.map n_of_string ks); "ok"
        | [ "est"; k ] -> string_of_n (tl_estimate !t (n_of_string k))
        | [ "clear" ] -> t := tl_clear !t; "ok"
        | [ "dump" ] ->
            Printf.sprintf "%s %s %s" (string_of_z !t.tl_incrs) (dump_rows !t.tl_freq)
              (hex_of_bytes !t.tl_door.bl_bits)
        | _ -> "badop")
  | _ -> failwith "tlfu header")
