(* component: tree  (header: pageSize mem|persistent) — the extracted model of z/btree.go *)
open Model
open Runner

let two64m1 = n_of_string "18446744073709551615"

let () = register "tree" (fun args ->
  match args with
  | [ ps; mode ] ->
      let psn = n_of_string ps in
      let m = nat_of_int (int_of_string ps / 16 - 1) in
      let persistent = (mode = "persistent") in
      let get_st = function Some s -> s | None -> failwith "panic" in
      let st = ref (get_st (if persistent then tree_new_file m psn else tree_new_mem m psn)) in
      let show vis =
        if vis = [] then "-"
        else String.concat " " (List.map (fun (k, v) -> string_of_n k ^ ":" ^ string_of_n v) vis) in
      let add64 a b = N.modulo (N.add a b) (N.succ two64m1) in
      (fun op ->
        match op with
        | [ "set"; k; v ] ->
            (match tree_set m psn !st (n_of_string k) (n_of_string v) with
             | Some s -> st := s; "ok" | None -> "panic")
        | [ "get"; k ] -> string_of_n (tree_get !st (n_of_string k))
        | [ "delbelow"; ts ] ->
            (match tree_delete_below !st (n_of_string ts) with Some s -> st := s; "ok" | None -> "panic")
        | [ "iter" ] -> let (vis, s) = tree_iterate !st (fun _ _ -> N0) in st := s; show vis
        | [ "iterset"; md; r; add ] ->
            let md = n_of_string md and r = n_of_string r and add = n_of_string add in
            let f _ v = if N.eqb (N.modulo v md) r then add64 v add else N0 in
            let (vis, s) = tree_iterate !st f in st := s; show vis
        | [ "reset" ] -> (match tree_reset m psn !st with Some s -> st := s; "ok" | None -> "panic")
        | [ "stats" ] ->
            Printf.sprintf "%s %s %s %s %s" (string_of_z (stat_leaf_keys !st)) (string_of_n (stat_pages !st))
              (string_of_z (stat_pages_free !st)) (string_of_n (stat_next_page !st)) (string_of_n (stat_free_page !st))
        | [ "datalen" ] -> string_of_n (stat_allocated !st)
        | [ "tight" ] -> st := tree_tight psn !st; "ok"
        | [ "tight"; slack ] -> st := tree_tight_n psn (n_of_string slack) !st; "ok"
        | [ "tfill"; k0; step; v; p; slack ] ->
            let k = ref (n_of_string k0) and step = n_of_string step and v = n_of_string v in
            let p = n_of_string p and slack = n_of_string slack in
            let n = ref 0 in
            while N.ltb (stat_pages !st) p && !n < 400000 do
              st := tree_tight_n psn slack !st;
              (match tree_set m psn !st !k v with Some s -> st := s | None -> failwith "panic");
              k := add64 !k step; incr n
            done;
            string_of_int !n
        | [ ("fill" | "tfill") as which; k0; step; v; p ] ->
            let k = ref (n_of_string k0) and step = n_of_string step and v = n_of_string v in
            let p = n_of_string p in
            let n = ref 0 in
            while N.ltb (stat_pages !st) p && !n < 400000 do
              if which = "tfill" then st := tree_tight psn !st;
              (match tree_set m psn !st !k v with Some s -> st := s | None -> failwith "panic");
              k := add64 !k step; incr n
            done;
            string_of_int !n
        | [ "reopen" ] ->
            if not persistent then "badop"
            else (match tree_reopen m psn !st with Some s -> st := s; "ok" | None -> "panic")
        | _ -> "badop")
  | _ -> failwith "tree header")
