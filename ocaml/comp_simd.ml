(* component: search  -- op: <n> <k> <w0> <w1> ... (backing array; the slice is its first n words) *)
open Model
open Runner

let rec take n l = if n <= 0 then [] else match l with [] -> [] | x :: t -> x :: take (n - 1) t
let rec drop n l = if n <= 0 then l else match l with [] -> [] | _ :: t -> drop (n - 1) t

let () = register "search" (fun _ -> fun op ->
  match op with
  | n :: k :: ws ->
      let n = int_of_string n and k = n_of_string k in
      let ws = List.map n_of_string ws in
      let xs = take n ws and beyond = drop n ws in
      let s = match search_amd64 search_guarded search_prog (n_of_int 4096) xs beyond k with
        | Some r -> string_of_z r | None -> "fault" in
      let nv = string_of_n (naive xs k) in
      let pt = match search_portable xs k with Some r -> string_of_n r | None -> "oob" in
      Printf.sprintf "%s %s %s" s nv pt
  | _ -> "badop")
