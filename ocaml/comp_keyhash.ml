(* component: keyhash (z.KeyToHash and the default hash end to end) *)
open Model
open Runner

let ikind_of = function
  | "uint64" -> IUint64 | "byte" -> IByte | "uint" -> IUint | "int" -> IInt
  | "int32" -> IInt32 | "uint32" -> IUint32 | "int64" -> IInt64
  | _ -> failwith "kind"

let key_of kind payload =
  match kind with
  | "string" -> HStr (bytes_of_hex payload)
  | "bytes" -> HBytes (bytes_of_hex payload)
  | k -> HInt (ikind_of k, z_of_string payload)

let () = register "keyhash" (fun _ -> fun op ->
  match op with
  | [ "k2h"; kind; named; payload; mem ] ->
      (* mem: what z.MemHash returned for the contents in the implementation's process ("-" for integer kinds) *)
      let mh = if mem = "-" then (fun _ -> N0) else (let m = n_of_string mem in fun _ -> m) in
      let (h, c) = key_to_hash mh (named = "1") (key_of kind payload) in
      Printf.sprintf "%s %s %s" (string_of_n h) (string_of_n c) mem
  | [ "e2e"; kind; _named; p1; p2 ] ->
      (match e2e_hit (key_of kind p1) (key_of kind p2) with
       | Some true -> "set=true get1=7,true get2=7,true"
       | Some false -> "set=true get1=7,true get2=0,false"
       | None -> "open")
  | _ -> "badop")
