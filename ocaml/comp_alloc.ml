(* components: alloc (single-threaded op sequences + pre-empted goroutines), alloclog2, allocstress (oracle only) *)
open Model
open Runner

let panic_name = function
  | PTooBig -> "toobig" | PLimit64 -> "limit64" | PIndex _ -> "index" | PSlice (_, _) -> "slice" | PHang -> "hang"

let nthreads = 300

let () = register "alloc" (fun args ->
  let mk sz = alloc_new (nat_of_int nthreads) (n_of_string sz) in
  let st = ref (match args with [ sz ] -> mk sz | _ -> failwith "alloc header") in
  let mem = ref (fun (_ : n) (_ : n) -> N0) in
  let next_thread = ref 1 in
  let dead = ref false in
  let bases = fun (_ : n) -> N0 in
  let t0 = O in
  let show extra = function
    | None -> dead := true; "hang"
    | Some ONil -> "nil"
    | Some (ORange (c, off, len)) ->
        Printf.sprintf "r %s %s %s%s" (string_of_n c) (string_of_n off) (string_of_n len) (extra c off len)
    | Some (OPanic PHang) -> dead := true; "hang"
    | Some (OPanic p) -> "panic " ^ panic_name p in
  let noextra _ _ _ = "" in
  (fun op ->
    if !dead then "dead" else
    match op with
    | [ "new"; sz ] -> st := mk sz; next_thread := 1; "ok " ^ string_of_n (a_allocated !st)
    | [ "alloc"; n ] ->
        let (s, o) = alloc_seq !st t0 (n_of_string n) in st := s; show noextra o
    | [ "aligned"; n ] ->
        let ((s, m), o) = aligned_seq bases !st !mem t0 (n_of_string n) in
        st := s; mem := m;
        (match o with
         | Some (ORange (_, _, N0)) -> "empty"
         | _ -> show (fun c off len ->
                  (* reading the model's memory back is only done for small ranges (the model zeroes by definition) *)
                  let z = int_of_n len > 4096 || List.for_all (fun b -> b = N0) (mem_read !mem c off len) in
                  Printf.sprintf " al=1 zero=%d" (if z then 1 else 0)) o)
    | [ "copy"; hex ] ->
        let bs = bytes_of_hex hex in
        let ((s, m), o) = copy_seq !st !mem t0 bs in
        st := s; mem := m;
        show (fun c off len -> " " ^ hex_of_bytes (mem_read !mem c off len)) o
    | [ "reset" ] -> st := a_reset !st; "ok"
    | [ "trimto"; m ] -> st := a_trim_to !st (n_of_string m); "ok"
    | [ "size" ] -> (match a_size !st with Some x -> string_of_n x | None -> "panic size")
    | [ "allocated" ] -> string_of_n (a_allocated !st)
    | [ "preempt"; sz ] ->
        (* goroutines stopped right after their fetch-and-add: fresh threads left in pc Added; an add above
           maxAlloc stands for several goroutines (no single request can be that large) *)
        let rem = ref (int_of_string sz) in
        let res = ref "ok" in
        while !rem > 0 do
          let part = min !rem (1 lsl 30) in
          rem := !rem - part;
          let t = nat_of_int !next_thread in
          incr next_thread;
          if !next_thread >= nthreads then failwith "too many pre-empted goroutines";
          (match astep !st (AcStart (t, n_of_int part)) with
           | Some s1 -> (match astep s1 (AcStep t) with
                         | Some s2 -> st := s2
                         | None -> st := s1)
           | None -> res := "error start")
        done;
        !res
    | [ "chunks" ] ->
        let cs = List.map (function Some l -> l | None -> N0) !st.chunks in
        let rec drop = function N0 :: r -> drop r | l -> l in
        let cs = List.rev (drop (List.rev cs)) in
        (if cs = [] then "-" else String.concat "," (List.map string_of_n cs)) ^ " stable"
    | [ "verify" ] -> Printf.sprintf "intact %d" (List.length !st.handed)
    | _ -> "badop"))

let () = register "alloclog2" (fun _ -> fun op ->
  match op with
  | [ x ] -> string_of_n (log2_floor (n_of_string x)) ^ " " ^ string_of_n (first_chunk (n_of_string x))
  | _ -> "badop")

(* real concurrent runs are judged by the property oracle only *)
let () = register "allocstress" (fun _ -> fun op ->
  match op with
  | [ "stress"; g; m; _; _ ] -> Printf.sprintf "ok %d" (int_of_string g * int_of_string m)
  | _ -> "badop")
