(* component: mstripes (Metrics.add / get / Clear, striped counters) *)
open Model
open Runner

let () = register "mstripes" (fun _ ->
  let ntypes = 11 in
  let m = Array.make ntypes ms_new in
  let dump t =
    let parts = ref [] in
    List.iteri (fun j v -> if v <> N0 then parts := Printf.sprintf "%d:%s" j (string_of_n v) :: !parts) m.(t);
    Printf.sprintf "%s %d [%s]" (string_of_n (ms_get m.(t))) (List.length m.(t)) (String.concat "," (List.rev !parts)) in
  (fun op ->
    match op with
    | [ "add"; t; h; d ] ->
        let t = int_of_string t in
        if t < 0 || t >= ntypes then "badtype"
        else (match ms_add m.(t) (n_of_string h) (n_of_string d) with
              | Some s -> m.(t) <- s; dump t
              | None -> "panic index out of range")
    | [ "get"; t ] -> let t = int_of_string t in if t < 0 || t >= ntypes then "badtype" else dump t
    | [ "clear" ] -> Array.fill m 0 ntypes ms_new; "ok"
    | _ -> "badop"))
