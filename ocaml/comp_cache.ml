(* component: cache -- runs the extracted lock-grain machine in "harness mode" (see Cache/Harness.v).
   header: maxCost bufSize ignoreInternal metrics shouldMode itemSize startNs bucketDurationSecs *)
open Model
open Runner

let tok_of_cb = function
  | CbExit v -> if v = N0 then None else Some ("exit:" ^ string_of_n v)
  | CbEvict (k, cf, v, cost) ->
      if v = N0 then None
      else Some (Printf.sprintf "evict:%s:%s:%s:%s" (string_of_n k) (string_of_n cf) (string_of_n v) (string_of_z cost))
  | CbReject (k, cf, v, cost) ->
      if v = N0 then None
      else Some (Printf.sprintf "reject:%s:%s:%s:%s" (string_of_n k) (string_of_n cf) (string_of_n v) (string_of_z cost))

let string_of_result = function
  | RUnit -> "ok"
  | RBool b -> sb b
  | RVal (v, f) -> string_of_n v ^ " " ^ sb f
  | RTtl (d, f) -> string_of_z d ^ " " ^ sb f
  | RList l ->
      let l = List.sort compare (List.map (fun x -> int64_of_n x) l) in
      if l = [] then "-" else String.concat " " (List.map (fun x -> Printf.sprintf "%Lu" x) l)
  | RZ z -> string_of_z z

let rec list_take n l = if n <= 0 then [] else match l with [] -> [] | x :: t -> x :: list_take (n - 1) t

let join_or_dash l = if l = [] then "-" else String.concat "," (List.sort compare l)

let () = register "cache" (fun args ->
  match args with
  | [ maxcost; bufsize; ignore; metrics_on; should_mode; item_size; start_ns; bdur ] ->
      let costs : (n, z) Hashtbl.t = Hashtbl.create 64 in
      let base = mk_cfg (nat_of_int (int_of_string bufsize + 1)) (z_of_string bdur) (ignore = "1")
                   (z_of_string item_size) (n_of_string should_mode) [] true in
      let cfg = { base with c_costfn = Some (fun v -> try Hashtbl.find costs v with Not_found -> Z0) } in
      let st = ref (init_state (z_of_string maxcost) (z_of_string bdur) (z_of_string start_ns) (metrics_on = "1")) in
      let blocked : (int * bool) list ref = ref [] in   (* (tid, is_clear) *)
      let opn = ref 0 in
      (fun op ->
        let tid = !opn in
        incr opn;
        let before = int_of_nat (length !st.s_log) in
        let rw : string option ref = ref None in
        (* goroutines blocked on the channel are served first-come-first-served (Go's sendq) *)
        let asc l = List.sort compare l in
        let all_blocked () = List.map nat_of_int (asc (List.map fst !blocked)) in
        let nonclear_blocked () =
          List.map nat_of_int (asc (List.map fst (List.filter (fun (_, c) -> not c) !blocked))) in
        let call o is_clear =
          (* a Clear/Close cannot start while the (real) applier is parked at the gate holding an item *)
          if is_clear && !st.s_buf <> [] then begin
            (match mstep cfg !st (LCall (nat_of_int tid, o)) with Some s -> st := s | None -> ());
            blocked := (tid, true) :: !blocked
          end else begin
            st := do_call cfg !st (nat_of_int tid) o (if !st.s_buf = [] then all_blocked () else nonclear_blocked ());
            if thread_busy !st (nat_of_int tid) then blocked := (tid, is_clear) :: !blocked
          end in
        let main =
          match op with
          | [ "set"; k; c; v; cost; ttl ] ->
              Hashtbl.replace costs (n_of_string v) (z_of_string cost);
              call (OSet (n_of_string k, n_of_string c, n_of_string v, Z0, z_of_string ttl)) false; None
          | [ "set"; k; c; v; cost; ttl; "x" ] ->
              (* explicit non-zero cost: Config.Cost is not consulted, so the applier does not wait at the gate *)
              Hashtbl.replace costs (n_of_string v) (z_of_string cost);
              call (OSet (n_of_string k, n_of_string c, n_of_string v, z_of_string cost, z_of_string ttl)) false; None
          | [ "get"; k; c ] -> call (OGet (n_of_string k, n_of_string c)) false; None
          | [ "del"; k; c ] -> call (ODel (n_of_string k, n_of_string c)) false; None
          | [ "wait" ] -> call OWait false; None
          | [ "ttl"; k; c ] -> call (OGetTTL (n_of_string k, n_of_string c)) false; None
          | [ "iter" ] -> call OIter false; None
          | [ "clear" ] -> call OClear true; None
          | [ "close" ] -> call OClose true; None
          | (("closeset" | "clearset") as which) :: k :: c :: v :: cost :: pass ->
              (* Close (buffer empty) during which, right after the first OnExit it delivers, another thread
                 issues a Set *)
              Hashtbl.replace costs (n_of_string v) (z_of_string cost);
              let ctid = nat_of_int tid in
              (match mstep cfg !st (LCall (ctid, (if which = "closeset" then OClose else OClear))) with Some s -> st := s | None -> ());
              let exited s = List.exists (function ECb (Some t, CbExit u) -> t = ctid && u <> N0 | _ -> false)
                  (list_take (int_of_nat (length s.s_log) - before) s.s_log) in
              let fuel = ref 10000 and stuck = ref false in
              while not (exited !st) && not !stuck && !fuel > 0 do
                decr fuel;
                (match mstep cfg !st (LStep ctid) with Some s -> st := s | None -> stuck := true)
              done;
              if exited !st then begin
                let rtid = nat_of_int (2000 + tid) in
                (* "x": the re-entrant Set passes an explicit cost (its item is not gated) *)
                (match mstep cfg !st (LCall (rtid, OSet (n_of_string k, n_of_string c, n_of_string v,
                                                        (if List.mem "x" pass then z_of_string cost else Z0), Z0))) with
                 | Some s -> st := run_client cfg (nat_of_int 1000) s rtid
                 | None -> ());
                let okres = List.exists (function ERet (t, _, RBool true) -> t = rtid | _ -> false)
                    (list_take (int_of_nat (length !st.s_log) - before) !st.s_log) in
                rw := Some (Printf.sprintf "rwset:%s:%s" v (sb okres))
              end;
              (* Close runs on (rest of its Clear, restart of the applier) up to its final stop; with a gated item
                 buffered the (real) applier is parked inside the Cost callback and that stop waits for a token *)
              let at_stop s = (match (get_thread s ctid).t_pc with CClr ((ClrStop | ClsStop), _) -> true | _ -> false) in
              let fuel = ref 10000 and stuck = ref false in
              while thread_busy !st ctid && not (at_stop !st) && not !stuck && !fuel > 0 do
                decr fuel;
                (match mstep cfg !st (LStep ctid) with Some s -> st := s | None -> stuck := true)
              done;
              if thread_busy !st ctid then blocked := (tid, true) :: !blocked;
              st := settle cfg (nat_of_int 1000) !st
                  (if !st.s_buf = [] || List.mem "pass" pass then all_blocked () else nonclear_blocked ());
              None
          | [ "rem" ] -> call ORem false; None
          | [ "max" ] -> call OMax false; None
          | [ "updmax"; z ] -> call (OUpdMax (z_of_string z)) false; None
          | [ "tok"; "sel"; hint ] ->
              (* a blocked Clear/Close completed during this token: Go's select decided after how many of the ungated
                 items (tombstones, Wait markers) that follow the gated head the applier took the stop signal.  The
                 implementation's choice is observed through the tombstones it processed itself (an OnExit without
                 OnEvict): the smallest consistent number is replayed. *)
              if !st.s_buf = [] || !st.s_apc = AExited then Some "idle"
              else begin
                let want = if hint = "-" then [] else List.sort compare (String.split_on_char ',' hint) in
                let s0 = !st in
                let rec finish s fuel =
                  if fuel = 0 || (s.s_apc = AIdle && s.s_apend = []) then s
                  else match mstep cfg s (LApp (false, [])) with Some s' -> finish s' (fuel - 1) | None -> s in
                let senders s = List.fold_left (fun s t -> run_client cfg (nat_of_int 1000) s t) s (nonclear_blocked ()) in
                let take s = match mstep cfg s (LApp (false, [])) with
                  | Some s' -> Some (senders (finish s' 10000)) | None -> None in
                let clears () = List.map nat_of_int (asc (List.map fst (List.filter (fun (_, c) -> c) !blocked))) in
                let variant k =
                  let rec go s j =
                    if j = 0 then Some s
                    else match s.s_buf with
                      | i :: _ when not (gated cfg i) -> (match take s with Some s' -> go s' (j - 1) | None -> None)
                      | _ -> None in
                  match take s0 with
                  | None -> None
                  | Some s1 ->
                      (match go s1 k with
                       | None -> None
                       | Some s2 ->
                           let s3 = List.fold_left (fun s t -> run_client cfg (nat_of_int 4000) s t) s2 (clears ()) in
                           Some (settle cfg (nat_of_int 1000) s3 (all_blocked ()))) in
                let exit_only s =
                  let evs = list_take (int_of_nat (length s.s_log) - before) s.s_log in
                  let ex = List.filter_map (function ECb (_, CbExit v) when v <> N0 -> Some (string_of_n v) | _ -> None) evs in
                  let ev = List.filter_map (function
                      | ECb (_, CbEvict (_, _, v, _)) | ECb (_, CbReject (_, _, v, _)) -> Some (string_of_n v)
                      | _ -> None) evs in
                  List.sort compare (List.filter (fun v -> not (List.mem v ev)) ex) in
                let rec search k =
                  match variant k with
                  | None -> None
                  | Some s -> if exit_only s = want then Some s else search (k + 1) in
                (match search 0 with
                 | Some s -> st := s
                 | None -> st := do_tok cfg !st (all_blocked ()));
                Some "ok"
              end
          | "tok" :: rest ->
              if !st.s_buf = [] || !st.s_apc = AExited then Some "idle"
              else begin
                let hold = (rest = [ "hold" ]) in
                st := do_tok cfg !st (if hold then nonclear_blocked () else all_blocked ());
                Some "ok"
              end
          | [ "sweep" ] -> st := do_sweep cfg !st (nonclear_blocked ()); Some "ok"
          | [ "sweeprw"; k1; c1; k2; c2; v; cost; ttl; first ] ->
              (* the sweep visits [first] first; right after its OnEvict callback the other key is re-written by a
                 re-entrant SetWithTTL (= a client thread scheduled at that point) *)
              Hashtbl.replace costs (n_of_string v) (z_of_string cost);
              if first = "none" then (st := do_sweep cfg !st (nonclear_blocked ()); Some "ok")
              else begin
                let f = n_of_string first in
                let (ok, oc) = if f = n_of_string k1 then (n_of_string k2, n_of_string c2) else (n_of_string k1, n_of_string c1) in
                (match !st.s_apend, !st.s_apc with
                 | [], AIdle ->
                     (match mstep cfg !st (LApp (true, [ [ f ] ])) with Some s -> st := s | None -> ());
                     (* run the applier until it has delivered the first OnEvict of this sweep *)
                     let evicted s = List.exists (function ECb (None, CbEvict (_, _, v, _)) -> v <> N0 | _ -> false)
                         (list_take (int_of_nat (length s.s_log) - before) s.s_log) in
                     let fuel = ref 10000 in
                     let stuck = ref false in
                     while not (evicted !st) && not !stuck && !fuel > 0 do
                       decr fuel;
                       (match mstep cfg !st (LApp (false, [])) with
                        | Some s -> if s.s_apc = AIdle && s.s_apend = [] then (st := s; stuck := true) else st := s
                        | None -> stuck := true)
                     done;
                     if evicted !st then begin
                       let rtid = nat_of_int (2000 + tid) in
                       (match mstep cfg !st (LCall (rtid, OSet (ok, oc, n_of_string v, Z0, z_of_string ttl))) with
                        | Some s -> st := run_client cfg (nat_of_int 1000) s rtid
                        | None -> ());
                       let okres = List.exists (function ERet (t, _, RBool true) -> t = rtid | _ -> false)
                           (list_take (int_of_nat (length !st.s_log) - before) !st.s_log) in
                       rw := Some (Printf.sprintf "rwset:%s:%s" first (sb okres))
                     end;
                     st := settle cfg (nat_of_int 1000) !st (nonclear_blocked ())
                 | _ -> ());
                Some "ok"
              end
          | [ "sweepit"; first ] ->
              (* the sweep visits [first] first; right after its OnEvict callback another thread enumerates the cache *)
              if first = "none" then (st := do_sweep cfg !st (nonclear_blocked ()); Some "ok")
              else begin
                let f = n_of_string first in
                (match !st.s_apend, !st.s_apc with
                 | [], AIdle ->
                     (match mstep cfg !st (LApp (true, [ [ f ] ])) with Some s -> st := s | None -> ());
                     let evicted s = List.exists (function ECb (None, CbEvict (_, _, v, _)) -> v <> N0 | _ -> false)
                         (list_take (int_of_nat (length s.s_log) - before) s.s_log) in
                     let fuel = ref 10000 in
                     let stuck = ref false in
                     while not (evicted !st) && not !stuck && !fuel > 0 do
                       decr fuel;
                       (match mstep cfg !st (LApp (false, [])) with
                        | Some s -> if s.s_apc = AIdle && s.s_apend = [] then (st := s; stuck := true) else st := s
                        | None -> stuck := true)
                     done;
                     if evicted !st then begin
                       let rtid = nat_of_int (2000 + tid) in
                       (match mstep cfg !st (LCall (rtid, OIter)) with
                        | Some s -> st := run_client cfg (nat_of_int 1000) s rtid
                        | None -> ());
                       let vals = List.fold_left (fun acc e -> match acc, e with
                                                   | None, ERet (t, _, RList l) when t = rtid -> Some l
                                                   | _ -> acc) None
                           (list_take (int_of_nat (length !st.s_log) - before) !st.s_log) in
                       let shown = match vals with
                         | Some l when l <> [] ->
                             String.concat "+" (List.map (fun x -> Printf.sprintf "%Lu" x) (List.sort compare (List.map int64_of_n l)))
                         | _ -> "-" in
                       rw := Some (Printf.sprintf "rwset:%s:%s" first shown)
                     end;
                     st := settle cfg (nat_of_int 1000) !st (nonclear_blocked ())
                 | _ -> ());
                Some "ok"
              end
          | [ "tick"; d ] -> st := do_time cfg !st (z_of_string d); Some "ok"
          | [ "est"; k; v ] -> st := do_est cfg !st (n_of_string k) (z_of_string v); Some ("ok " ^ v)
          | [ "estcheck"; k ] -> Some (string_of_z (!st.s_est (n_of_string k)))
          | [ "metrics" ] ->
              if not !st.s_met.m_on then Some "nil"
              else
                Some (String.concat " " (List.map (fun t -> string_of_n (m_read !st.s_met t))
                  [ MHit; MMiss; MKeyAdd; MKeyUpdate; MKeyEvict; MCostAdd; MCostEvict; MDropSets; MRejectSets ]))
          | [ "dump" ] ->
              let s = !st in
              let stl = List.map (fun (k, ((cf, v), e)) ->
                  Printf.sprintf "%s:%s:%s:%s" (string_of_n k) (string_of_n cf) (string_of_n v) (string_of_z e))
                  (dump_store s) in
              let pc = List.map (fun (k, c) -> Printf.sprintf "%s:%s" (string_of_n k) (string_of_z c)) (dump_costs s) in
              let bs = List.concat_map (fun (b, kvs) ->
                  List.map (fun (k, cf) -> Printf.sprintf "%s:%s:%s" (string_of_z b) (string_of_n k) (string_of_n cf)) kvs)
                  (dump_buckets s) in
              Some (Printf.sprintf "store=%s costs=%s used=%s buckets=%s last=%s" (join_or_dash stl) (join_or_dash pc)
                      (string_of_z s.s_pol.p_used) (join_or_dash bs) (string_of_z s.s_em.em_last))
          | _ -> Some "badop" in
        (* threads that finished leave the blocked list *)
        blocked := List.filter (fun (t, _) -> thread_busy !st (nat_of_int t)) !blocked;
        let after = int_of_nat (length !st.s_log) in
        let evs = List.rev (list_take (after - before) !st.s_log) in
        let res = ref (match main with Some r -> r | None -> "blocked") in
        let cbs = ref [] and dones = ref [] in
        List.iter (fun e ->
          match e with
          | ERet (t, _, r) ->
              if int_of_nat t = tid && main = None then res := string_of_result r
              else if int_of_nat t >= 2000 then ()
              else dones := ("done:" ^ string_of_int (int_of_nat t)) :: !dones
          | ECb (_, c) -> (match tok_of_cb c with Some s -> cbs := s :: !cbs | None -> ())
          | ECall _ -> ()
          | EMClear -> ()) evs;
        let extra = List.rev !cbs @ (match !rw with Some x -> [ x ] | None -> []) @ List.sort compare !dones in
        (* blocking calls print ok instead of the unit result *)
        String.concat " " (!res :: extra))
  | _ -> failwith "cache header")
