#!/usr/bin/env python3
"""./check with the delta-debugging of a failing case capped at 30 rounds (used by run_mutations.py only: the seeded
defects need a verdict, not a minimal replay)."""
import importlib, os, sys
ROOT = os.path.dirname(os.path.dirname(os.path.abspath(__file__)))
sys.path.insert(0, ROOT)
from lib import core, prop as P  # noqa: E402
_orig = core.shrink
core.shrink = lambda case, fails, max_rounds=400: _orig(case, fails, 30)
pid = sys.argv[1]
sys.exit(P.run(importlib.import_module("lib.props." + pid.lower()).PROP, "quick", 1))
