#!/usr/bin/env python3
"""Seeded-defect run for C10/C16: applies each mutation of z/btree.go in a scratch worktree of /repo and runs both
checks against it.  usage: python3 notes/run_mutations.py [name ...]   (writes nothing into /repo's working tree)"""
import os, subprocess, sys
ROOT = os.path.dirname(os.path.dirname(os.path.abspath(__file__)))
MUT = "/tmp/repo_tree_mut"
MUTS = [
 ("split-off-by-one", "split copies from maxKeys/2+1 but keeps the key counts (one entry lost)",
  "rightHalf := n[keyOffset(maxKeys/2):keyOffset(maxKeys)]", "rightHalf := n[keyOffset(maxKeys/2+1):keyOffset(maxKeys)]"),
 ("compact-frees-last-child", "Tree.compact also frees the last child (i < N instead of i < N-1)",
  "rem == 0 && i < N-1", "rem == 0 && i < N"),
 ("newnode-freepage-after-zero", "newNode reads the next-free pointer after zeroing the page",
  "\tif t.freePage > 0 {\n\t\tt.freePage = n.uint64(0)\n\t}\n\tzeroOut(n)\n", "\tzeroOut(n)\n\tif t.freePage > 0 {\n\t\tt.freePage = n.uint64(0)\n\t}\n"),
 ("get-idx-off-by-one", "Tree.get gives up when idx >= numKeys-1",
  "if idx == n.numKeys() || n.key(idx) == 0 {\n\t\treturn 0", "if idx >= n.numKeys()-1 || n.key(idx) == 0 {\n\t\treturn 0"),
 ("iterate-zero-values", "IterateKV does not skip zero values",
  "\t\t\tif val == 0 {\n\t\t\t\tcontinue\n\t\t\t}\n", ""),
 ("reinit-pointed-off-by-one", "reinit marks page pageId+1 instead of pageId as pointed-to",
  "\t\ti := pageId - 1\n\t\ttailPages[i] = true\n\t}\n\t// There should", "\t\ti := pageId\n\t\tif int(i) < len(tailPages) {\n\t\t\ttailPages[i] = true\n\t\t}\n\t}\n\t// There should"),
 ("reinit-free-count", "reinit counts only free pages that have a successor",
  "\t\t\t\tpointedPages = append(pointedPages, nextPageId)\n\t\t\t}\n\t\t\tt.stats.NumPagesFree++", "\t\t\t\tpointedPages = append(pointedPages, nextPageId)\n\t\t\t\tt.stats.NumPagesFree++\n\t\t\t}"),
 ("root-split-no-reread", "Set does not re-read the root after the split allocated pages",
  "\t\troot = t.node(1)\n\t\tcopy(left", "\t\tcopy(left"),
 ("split-no-reread", "split does not re-read n after newNode",
  "\tnn := t.newNode(n.bits())\n\t// Re-read n as the underlying buffer for tree might have changed during newNode.\n\tn = t.node(pid)\n", "\tnn := t.newNode(n.bits())\n"),
 ("compact-keeps-stale-value", "node.compact keeps the value of the retained max key (finding 2 re-seeded)",
  "\t\t\tn.setAt(valOffset(right), 0)\n", ""),
 ("reinit-old-bound", "reinit frontier scan with the old bound (finding 3 re-seeded)",
  "for (int(t.nextPage)+1)*pageSize <= len(t.data) {", "for int(t.nextPage)*pageSize < len(t.data) {"),
 ("set-no-overwrite-count", "node.set counts an overwrite as a new key",
  "\tif ki != k {\n\t\tn.setNumKeys(n.numKeys() + 1)\n\t\tnumAdded = 1\n\t}", "\tif ki != k {\n\t\tn.setNumKeys(n.numKeys() + 1)\n\t}\n\tnumAdded = 1"),
 ("deletebelow-le", "node.compact deletes values <= lo",
  "\t\tif n.val(right) < lo {\n", "\t\tif n.val(right) <= lo && lo > 1 {\n"),
 ("parent-key-wrong-after-split", "after a child split the parent's new entry is keyed by the right node's first key",
  "\t\tn.set(child.maxKey(), child.pageID())\n\t\tn.set(nn.maxKey(), nn.pageID())\n\t}\n\treturn n", "\t\tn.set(nn.key(0), child.pageID())\n\t\tn.set(nn.maxKey(), nn.pageID())\n\t}\n\treturn n"),
 ("numpagesfree-not-decremented", "newNode forgets NumPagesFree-- when recycling",
  "\t\tpageId = t.freePage\n\t\tt.stats.NumPagesFree--\n", "\t\tpageId = t.freePage\n"),
]
def sh(cmd, **kw):
    return subprocess.run(cmd, shell=True, stdout=subprocess.PIPE, stderr=subprocess.STDOUT, text=True, **kw)
def main():
    want = sys.argv[1:]
    sh("git -C /repo worktree remove --force %s" % MUT)
    r = sh("git -C /repo worktree add %s HEAD --detach" % MUT)
    assert os.path.exists(MUT + "/z/btree.go"), r.stdout
    orig = open(MUT + "/z/btree.go").read()
    rows = []
    try:
        for name, what, a, b in MUTS:
            if want and name not in want:
                continue
            assert orig.count(a) == 1, (name, orig.count(a))
            open(MUT + "/z/btree.go", "w").write(orig.replace(a, b))
            res = {}
            for pid in ("C10", "C16"):
                env = dict(os.environ, VERIF_REPO=MUT)
                r = subprocess.run([sys.executable, "notes/check_fast.py", pid], cwd=ROOT, env=env, stdout=subprocess.PIPE, stderr=subprocess.STDOUT, text=True)
                lines = [l for l in r.stdout.splitlines() if l.startswith(("VIOLATION", "violation", "OK"))]
                res[pid] = (r.returncode, " | ".join(l[:160] for l in lines[:2]))
            rows.append((name, what, res))
            print(name, {k: v for k, v in res.items()}, flush=True)
    finally:
        open(MUT + "/z/btree.go", "w").write(orig)
        sh("git -C /repo worktree remove --force %s" % MUT)
    return rows
if __name__ == "__main__":
    main()
